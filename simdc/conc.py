"""Concurrent client harness shared by the schedule-exploring checks."""
import random

from . import audit as auditmod
from .kernel import Killed, Aborted, SimIncident
from .ops import run_op, BlockAbort
from .world import World


def keynamed_disk(dc):
    """A Disk subclass (the documented extension point, as tests/test_core.py SHA256FilenameDisk) whose value files are named
    after the key they belong to; where the key is not known (push) the stock random name is used."""
    cls = getattr(dc, '_verif_keynamed_disk', None)
    if cls is None:
        import hashlib
        import os.path as osp

        class KeyNamedDisk(dc.Disk):
            def filename(self, key=dc.UNKNOWN, value=dc.UNKNOWN):
                if key is dc.UNKNOWN:
                    return super().filename(key, value)
                name = hashlib.sha256(repr(key).encode('utf-8')).hexdigest()[:32]
                filename = osp.join(name[:2], name[2:4], name[4:] + '.val')
                return filename, osp.join(self._directory, filename)
        cls = dc._verif_keynamed_disk = KeyNamedDisk
    return cls


def default_factory(dc, path, cfg):
    kind = cfg.get('target', 'cache')
    settings = dict(cfg.get('settings', {}))
    timeout = cfg.get('timeout', 60)
    if kind == 'cache' and cfg.get('disk') == 'keynamed':
        return dc.Cache(path, timeout=timeout, disk=keynamed_disk(dc), **settings)
    if kind == 'cache':
        return dc.Cache(path, timeout=timeout, **settings)
    if kind == 'fanout':
        return dc.FanoutCache(path, shards=cfg.get('shards', 2), timeout=cfg.get('timeout', 0.010), **settings)
    if kind == 'deque':
        d = dc.Deque(directory=path, maxlen=cfg.get('maxlen'))
        return d
    if kind == 'index':
        return dc.Index(path)
    raise ValueError(kind)


def client_fn(sim, task_name, target, prog, history, ctx, get_task):
    def fn():
        task = get_task()
        for i, op in enumerate(prog):
            task.op = i
            task.op_seams = 0
            task.op_sql = 0
            task.op_fs = 0
            task.clock_reads = []
            if op.get('op') == 'sleep':
                sim.sleep(op['dt'])
                continue
            if op.get('op') == 'advance':
                sim.advance(op['dt'])
                continue
            rec = {'task': task_name, 'i': i, 'op': op, 'inv': sim.stamp(), 'ret': None, 'res': None, 't_inv': sim.now}
            history.append(rec)
            res = run_op(target, op, ctx)
            rec['res'] = res
            rec['ret'] = sim.stamp()
            rec['t_ret'] = sim.now
            rec['seams'] = task.op_seams
            rec['sql'] = task.op_sql
            rec['fs'] = task.op_fs
        task.op = -1
        return True
    return fn


def run_and_inspect(case, inspect, factory=default_factory, prepare=None, extra=None):
    cfg = case['cfg']
    seed = case['seed']
    world = World(seed, sched=case.get('sched') or cfg.get('sched'), clock=cfg.get('clock'),
                  step_cap=cfg.get('step_cap', 50000), line_p=cfg.get('line_p', 0.0),
                  yield_clock=cfg.get('yield_clock', True), keep_log=cfg.get('keep_log', False),
                  dircollide=cfg.get('dircollide', False), post_stmt_yield=cfg.get('post_stmt_yield', False))
    sim = world.sim
    sim.timer_race_p = cfg.get('timer_race_p', 0.0)
    dc = world.dc
    out = {'violations': [], 'incident': None}
    try:
        path = world.path('c')
        topo = cfg.get('topology', 'procs')
        names = sorted(case['progs'])
        targets = {}
        shared = None
        main_target = factory(dc, path, cfg)
        if prepare is not None:
            prepare(world, main_target)
        for n in names:
            if topo == 'shared':
                targets[n] = main_target
            else:
                targets[n] = factory(dc, path, cfg)
        history = []
        sim.faults = [dict(f) for f in case.get('faults', [])]
        tasks = {}
        stream_rng = random.Random('%s/stream' % seed)
        ctx = {'stream_rng': stream_rng}
        for idx, n in enumerate(names):
            procname = 'p0' if topo in ('shared', 'own') else 'p-' + n
            skew = (cfg.get('skews') or {}).get(n, 0.0)
            proc = sim.proc(procname, skew)
            holder = {}
            fn = client_fn(sim, n, targets[n], case['progs'][n], history, ctx, lambda h=holder: h['t'])
            holder['t'] = sim.spawn(n, proc, fn)
            tasks[n] = holder['t']
        if extra is not None:
            extra(world, main_target, tasks)
        try:
            sim.run()
        except SimIncident as inc:
            out['incident'] = inc
        out['history'] = history
        out['task_exc'] = {n: t.exc for n, t in tasks.items() if t.exc is not None}
        for t in sim.tasks:
            if t.name not in tasks and t.exc is not None:
                out['task_exc'][t.name] = t.exc
        out['seam_violations'] = list(sim.violations)
        out['inspect_exc'] = None
        if out['incident'] is None:
            try:
                inspect(world, main_target, targets, out)
            except (dc.Timeout, world.dc.core.sqlite3.Error, OSError, AssertionError) as exc:
                import traceback
                out['inspect_exc'] = '%s: %s | %s' % (type(exc).__name__, str(exc)[:80],
                                                      traceback.format_exc().strip().splitlines()[-3].strip()[:100])
        out.update({'digest': sim.digest(), 'steps': sim.step, 'switches': sim.switches,
                    'fired': dict(sim.fired), 'probes': dict(sim.probes),
                    'virtual_s': sim.now - sim._t0, 'picks': sim.picks[:2000]})
        for t in list(targets.values()) + [main_target]:
            try:
                close = getattr(t, 'close', None) or getattr(getattr(t, 'cache', None), 'close', None)
                if close:
                    close()
            except Exception:
                pass
    finally:
        world.close()
    return out


def incident_violations(out, pid, violations):
    """Map run-level failures to violations: no progress within the step cap,
    deadlock, and a quiescent directory that cannot be observed.  A watchdog
    incident stays a harness error (raised)."""
    inc = out.get('incident')
    if inc is not None:
        if inc.kind in ('stepcap', 'deadlock'):
            violations.append({'rule': '%s/no-progress' % pid, 'sig': inc.kind, 'detail': str(inc)[:300]})
        else:
            raise inc
    if out.get('inspect_exc'):
        violations.append({'rule': '%s/quiescent-observation-failed' % pid, 'sig': out['inspect_exc'].split(':')[0],
                           'detail': out['inspect_exc']})
    return inc is not None or bool(out.get('inspect_exc'))


def unexpected_exceptions(out, allowed=()):
    """Exceptions that escaped a client program (not op-level results)."""
    bad = []
    for name, exc in sorted(out.get('task_exc', {}).items()):
        if isinstance(exc, (Killed, Aborted)):
            continue
        if isinstance(exc, allowed):
            continue
        bad.append((name, '%s: %s' % (type(exc).__name__, str(exc)[:80])))
    return bad
