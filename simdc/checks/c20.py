"""C20 - Averager counts every add once; throttle never exceeds its rate.
Averager: 2-3 adders/poppers under the seeded scheduler, history linearizable
against (total, count).  Throttle: 1-3 caller tasks with seeded arrival
patterns on the virtual clock (time_func / sleep_func are the simulated clock);
the recorded start times must satisfy the window bound and every call must
start.  DESIGN.md section 9, C20."""
import json
import random

from .. import conc, lin, vals, seams
from ..kernel import SimIncident, Killed, Aborted
from ..ops import fp, run_op
from ..world import World

PROPERTY = 'C20'
LEVEL = 'exploration'
QUICK_S = 30
THOROUGH_S = 420
BATCH = 8
RULE = ('one evaluation = one seeded simulated run: either 2-3 clients adding dyadic rationals to / reading / popping one Averager '
        '(shared object, own objects, processes; Cache or FanoutCache) interleaved by the seeded scheduler and checked for '
        'linearizability against (total, count); or a throttled function (count in {0.25,0.5,1,2,5} per seconds in {0.5,1,3}) called by 1-3 '
        'tasks (threads of one process, or separate simulated processes that each open the directory and decorate their own copy of the function; str/bytes hash differently per process) with seeded arrival patterns (bursts, idle gaps, steady overload) on the virtual clock, whose recorded start times must '
        'satisfy starts(window) <= max(count,1) + rate*length for every window and every call must start, including the calls in which the function raises (the admission is spent, the exception comes out); non-trivial = a context switch '
        '(Averager) / at least one call was delayed (throttle); distinct = SHA-256 of the seam event log')
RULE += ' ' + 'In a third of the multi-object Averager runs and of the multi-process throttle runs every second object is handed over by a pickle round trip instead of opening the directory.'
RULE += ' ' + 'In 30 % of the multi-process throttle runs one calling process is killed at a seeded point after decorating; the survivors must make all their calls.'
RULE += ' ' + "In 40 % of the multi-process throttle runs the processes' functions carry different module names under the one name= argument."
RULE += ' ' + 'A fifth of the throttle runs use JSONDisk.'
RULE += ' ' + 'In one throttle run in seven the clock is set back after every second call (the bound is taken in true elapsed time).'
RULE += ' ' + 'One throttle run in sixteen uses rates like 20 per 600 s or 100 per hour with a drained bucket and minutes of idleness.'
ASSUMPTIONS = ['throttle is given time_func/sleep_func bound to the virtual clock (the seam the recipe offers); a virtual sleep lasts at least the requested time plus >= 1 microsecond',
               'Averager values are dyadic rationals so sums are exact in any order']
PROBES = ('throttle_delayed', 'throttle_calls', 'throttle_raising_calls', 'throttle_across_processes', 'throttle_after_restart', 'avg_pops', 'lock_wait', 'handed_over_by_pickle', 'caller_killed', 'same_name_other_module', 'json_disk', 'clock_set_back')
TECHNIQUE = 'deterministic simulation: seeded schedules + linearizability against (total,count); virtual-clock arrival patterns with a window-bound oracle over recorded start times'
LEVEL_TEXT = ('seeded exploration of adder/popper interleavings decided by a linearizability search, and of arrival patterns x rates on '
              'a virtual clock decided by the exact window bound over all pairs of recorded start times plus completion of every call.')
LEVEL_NOTE = 'trusted: simulator kernel and virtual clock, SQLite'


def gen_case(seed, tier):
    rng = random.Random('%s/c20' % seed)
    if rng.random() < 0.5:
        progs = {}
        for ci in range(rng.choice((2, 3))):
            prog = []
            for j in range(rng.randint(2, 6)):
                r = rng.random()
                if r < 0.6:
                    prog.append({'op': 'avg_add', 'v': rng.choice((1, 2, 3, {'f': '0.5'}, {'f': '0.25'}, {'f': '-1.5'}, 8))})
                elif r < 0.8:
                    prog.append({'op': 'avg_get'})
                else:
                    prog.append({'op': 'avg_pop'})
            progs['c%d' % ci] = prog
        cfg = {'kind': 'averager', 'target': rng.choice(('cache', 'cache', 'fanout')), 'shards': rng.choice((1, 2, 3)),
               'topology': rng.choice(('shared', 'own', 'procs')), 'settings': {},
               'sched': rng.choice(({'kind': 'uniform'}, {'kind': 'sticky', 'p': 0.7}, {'kind': 'pct', 'd': 2, 'horizon': 150})),
               'clock': {'mode': 'frozen'}, 'yield_clock': False, 'post_stmt_yield': rng.random() < 0.5, 'line_p': 0.0,
               'timeout': 60}
        if cfg['topology'] == 'shared':
            cfg['line_p'] = rng.choice((0.0, 0.05))
        elif rng.random() < 0.3:
            cfg['handoff'] = 'pickle'
        return {'seed': seed, 'cfg': cfg, 'progs': progs, 'faults': []}
    ncallers = rng.choice((1, 2, 3))
    arrivals = []
    for ci in range(ncallers):
        pattern = rng.choice(('burst', 'gaps', 'steady', 'mixed'))
        gaps = []
        for j in range(rng.randint(2, 7)):
            if pattern == 'burst':
                gaps.append(0.0)
            elif pattern == 'gaps':
                gaps.append(rng.choice((0.0, 2.0, 5.0, 10.0)))
            elif pattern == 'steady':
                gaps.append(rng.choice((0.05, 0.1, 0.3)))
            else:
                gaps.append(rng.choice((0.0, 0.0, 0.1, 1.0, 4.0)))
        arrivals.append(gaps)
    cfg = {'kind': 'throttle', 'count': rng.choice((1, 2, 5, 1, 2, 5, 0.5, 0.25)), 'seconds': rng.choice((0.5, 1, 3)),
           'target': rng.choice(('cache', 'cache', 'fanout')), 'shards': rng.choice((1, 2)),
           'arrivals': arrivals, 'work': rng.choice((0.0, 0.0, 0.01, 0.2)),
           'sched': rng.choice(({'kind': 'uniform'}, {'kind': 'sticky', 'p': 0.7})),
           'clock': {'mode': rng.choice(('frozen', 'frozen', 'tick'))}, 'yield_clock': rng.random() < 0.5,
           'expire': rng.choice((None, None, 100))}
    # in which calls the throttled function raises (the admission is spent all the same; the exception comes out unchanged)
    cfg['raises'] = [[rng.random() < 0.5 for _ in gaps] if rng.random() < 0.3 else [False] * len(gaps) for gaps in arrivals]
    # callers as separate processes: each opens the directory itself and decorates its own copy of the function under the
    # same name - one bucket shared through the cache, not through Python objects
    cfg['procs'] = rng.random() < 0.4
    if cfg['procs'] and rng.random() < 0.3:
        cfg['handoff'] = 'pickle'
    cfg['modules'] = cfg['procs'] and rng.random() < 0.4
    cfg['json_disk'] = rng.random() < 0.2
    # a restart: after the first callers are done, a new process on the same directory whose clock reads much LOWER (a
    # monotonic clock after a reboot, a device without a battery-backed clock) decorates the function again and calls it
    cfg['reboot'] = rng.random() < 0.15
    if rng.random() < 0.06:
        # rates of the kind '100 per hour': a burst that drains the bucket, minutes of idleness, another burst
        cfg['count'], cfg['seconds'] = rng.choice(((20, 600), (100, 3600), (30, 300)))
        burst = cfg['count'] + 2
        cfg['arrivals'] = [[0.0] * burst + [rng.choice((400.0, 700.0))] + [0.0] * burst]
        cfg['raises'] = [[False] * len(cfg['arrivals'][0])]
        cfg['procs'] = cfg['reboot'] = False
        cfg['expire'] = None
        cfg['work'] = 0.0
        cfg['long_period'] = True
    if rng.random() < 0.15 and not cfg['reboot']:
        cfg['clock_slips'] = rng.choice((0.01, 0.01, 0.3))
    if cfg['procs'] and ncallers >= 2 and rng.random() < 0.3:
        # one of the calling processes dies (kill -9, out of memory) somewhere inside its calls - possibly in the middle of an
        # admission: the others are still let through, at the same rate
        cfg['kill'] = {'i': rng.randrange(ncallers), 'k': rng.randint(1, 150)}
        cfg['reboot'] = False
    return {'seed': seed, 'cfg': cfg}


# ---- Averager ------------------------------------------------------------------

def avg_apply(state, op):
    total, count = state
    name = op['op']
    if name == 'avg_add':
        return (total + vals.dec(op['v']), count + 1), ('ok', 'None')
    res = ('ok', fp(None if count == 0 else total / count))
    if name == 'avg_get':
        return state, res
    if name == 'avg_pop':
        return (0.0, 0), res
    raise ValueError(name)


def avg_factory(dc, path, cfg, handoff=False):
    if cfg['target'] == 'fanout':
        cache = dc.FanoutCache(path, shards=cfg['shards'], timeout=0.010)
    else:
        cache = dc.Cache(path, timeout=cfg.get('timeout', 60))
    av = dc.Averager(cache, 'avg-key')
    if handoff:
        # the worker did not open the directory itself: it was handed the Averager as an argument (multiprocessing pickles it)
        import pickle
        blob = pickle.dumps(av)
        cache.close()
        av = pickle.loads(blob)
        cache = av._cache
    av.close = cache.close
    return av


def run_averager(case):
    def inspect(world, main, targets, out):
        sim = world.sim
        fresh = avg_factory(world.dc, world.path('c'), case['cfg'])
        op = {'op': 'avg_get'}
        rec = {'task': 'final', 'i': 0, 'op': op, 'inv': sim.stamp()}
        rec['res'] = run_op(fresh, op)
        rec['ret'] = sim.stamp()
        out['history'].append(rec)
        fresh.close()

    built = [0]

    def factory(dc, path, cfg):
        # with cfg['handoff'], every second object was not opened by its user but handed over by pickling
        built[0] += 1
        return avg_factory(dc, path, cfg, handoff=cfg.get('handoff') == 'pickle' and built[0] % 2 == 0)

    out = conc.run_and_inspect(case, inspect, factory=factory)
    if case['cfg'].get('handoff') and built[0] >= 2:
        out.setdefault('probes', {})['handed_over_by_pickle'] = 1
    violations = out['violations']
    base = {'digest': out.get('digest'), 'steps': out.get('steps', 0), 'switches': out.get('switches', 0),
            'fired': out.get('fired', {}), 'virtual_s': out.get('virtual_s', 0.0), 'picks': out.get('picks')}
    if conc.incident_violations(out, PROPERTY, violations):
        return dict(base, violations=violations, probes=out.get('probes', {}), nontrivial=True)
    for name, msg in conc.unexpected_exceptions(out):
        violations.append({'rule': 'C20/unexpected-exception', 'sig': msg.split(':')[0], 'detail': '%s: %s' % (name, msg)})
    hist = out['history']
    for h in hist:
        h['tolerate'] = False
        r = h['res']
        if r and r[0] == 'exc':
            violations.append({'rule': 'C20/unexpected-exception', 'sig': r[1], 'detail': '%s %s -> %s' % (h['task'], json.dumps(h['op']), r)})
    try:
        ok, info = lin.check(hist, (0.0, 0), avg_apply)
    except OverflowError:
        ok, info = True, {}
    if not ok:
        violations.append({'rule': 'C20/averager-not-linearizable', 'sig': 'history',
                           'detail': 'no order of the completed adds/gets/pops explains the reported means; stuck at %s' % (info.get('stuck_ops'),)})
    pr = dict(out['probes'])
    pr['avg_pops'] = sum(1 for h in hist if h['op']['op'] == 'avg_pop')
    return dict(base, violations=violations, probes=pr, nontrivial=out['switches'] > 0, outcome={'ops': len(hist)})


# ---- throttle --------------------------------------------------------------------

class WorkError(Exception):
    """Raised by the throttled function in the calls marked in cfg['raises']."""


def run_throttle(case):
    cfg = case['cfg']
    violations = []
    probes = {}
    world = World(case['seed'], sched=cfg['sched'], clock=cfg['clock'], step_cap=150000, yield_clock=cfg['yield_clock'])
    sim = world.sim
    try:
        dc = world.dc
        dkw = {'disk': dc.JSONDisk} if cfg.get('json_disk') else {}      # the bucket is a cache value: any Disk must do
        if dkw:
            probes['json_disk'] = 1
        if cfg['target'] == 'fanout':
            cache = dc.FanoutCache(world.path('c'), shards=cfg['shards'], **dkw)
        else:
            cache = dc.Cache(world.path('c'), **dkw)
        starts = []
        arrivals_log = []
        count, seconds = cfg['count'], cfg['seconds']
        rate = count / float(seconds)

        # The recipe admits a call at the clock reading it took inside its transaction; the function body
        # starts a little later (commit, scheduling).  The window bound is a statement about admissions, so the
        # oracle uses the reading that admitted each call (the last time_func value seen by the calling task).
        last_read = {}

        slipped = [0.0]      # how far the wall clock has been set back so far: true time = clock reading + slipped

        def time_func():
            t = seams.SIM_TIME.time()
            last_read[sim.current.name if sim.current else None] = t + slipped[0]
            return t

        def throttled(c):
            return dc.throttle(c, count, seconds, name='thr', expire=cfg['expire'],
                               time_func=time_func, sleep_func=seams.SIM_TIME.sleep)

        def work(who, boom=False):
            starts.append((last_read.get(who, sim.now), who))
            if cfg['work']:
                sim.sleep(cfg['work'])
            if boom:
                raise WorkError(who)
            return who

        t_decorated = sim.now
        plain_work = work
        work = throttled(cache)(plain_work)
        opened = []
        decorated_at = [sim.now]

        def caller(i):
            def fn():
                work = globals_work[0]
                if cfg.get('procs'):
                    own = dc.FanoutCache(world.path('c'), shards=cfg['shards'], **dkw) if cfg['target'] == 'fanout' else dc.Cache(world.path('c'), **dkw)
                    if cfg.get('handoff') == 'pickle':
                        # the process is handed the parent's cache object (multiprocessing pickles it) instead of opening the directory
                        import pickle
                        own.close()
                        own = pickle.loads(pickle.dumps(cache))
                        probes['handed_over_by_pickle'] = 1
                    mine = plain_work
                    if cfg.get('modules'):
                        # the same job file run as a script in one process and imported in another: the function's module differs
                        # ('__main__' here, 'jobs' there); name= is what makes the callers share one bucket all the same
                        def mine(who, boom=False):
                            return plain_work(who, boom)
                        mine.__module__ = ('__main__', 'jobs', 'pkg.jobs')[i % 3]
                        mine.__qualname__ = mine.__name__ = 'work'
                        probes['same_name_other_module'] = 1
                    work = throttled(own)(mine)
                    opened.append(own)
                    # decorating (re)fills the bucket - that is how the recipe initialises it - so every process decorates
                    # before anyone calls: the bound below is about calls, not about start-up
                    while len(opened) < len(cfg['arrivals']):
                        sim.sleep(0.001)
                    decorated_at[0] = max(decorated_at[0], sim.now)
                    if cfg.get('kill') and cfg['kill']['i'] == i:
                        me = sim.current
                        sim.faults.append({'f': 'kill', 'proc': me.proc.name, 'task': '-', 'at': me.proc.seams + cfg['kill']['k'], 'torn': 0.5})
                for j, gap in enumerate(cfg['arrivals'][i]):
                    if gap:
                        sim.sleep(gap)
                    arrivals_log.append((sim.now, i, j))
                    boom = bool(cfg.get('raises')) and cfg['raises'][i][j]
                    try:
                        got = work('c%d' % i, boom)
                        if boom or got != 'c%d' % i:
                            violations.append({'rule': 'C20/throttle-result', 'sig': 'result',
                                               'detail': 'throttled call returned %r (raising call: %s)' % (got, boom)})
                    except WorkError:
                        probes['throttle_raising_calls'] = probes.get('throttle_raising_calls', 0) + 1
                    if cfg.get('clock_slips') and j % 2 == 1:
                        # the wall clock is set back a little (NTP step, VM migration): the limit is about real elapsed time
                        sim.advance(-cfg['clock_slips'])
                        slipped[0] += cfg['clock_slips']
                        probes['clock_set_back'] = probes.get('clock_set_back', 0) + 1
                done1.append(i)
                return True
            return fn

        globals_work = [work]
        wave2 = []
        done1 = []

        def rebooted():
            while len(done1) < len(cfg['arrivals']):
                sim.sleep(0.5)
            own = dc.FanoutCache(world.path('c'), shards=cfg['shards'], **dkw) if cfg['target'] == 'fanout' else dc.Cache(world.path('c'), **dkw)
            opened.append(own)

            def again(who):
                wave2.append(('start', seams.SIM_TIME.time()))
                return who
            fn2 = throttled(own)(again)
            for _ in range(3):
                wave2.append(('arrive', seams.SIM_TIME.time()))
                fn2('w2')
            return True

        tasks = [sim.spawn('c%d' % i, 'p%d' % i if cfg.get('procs') else 'p0', caller(i)) for i in range(len(cfg['arrivals']))]
        if cfg.get('reboot'):
            tasks.append(sim.spawn('w2', sim.proc('p-rebooted', -100000.0), rebooted))
            probes['throttle_after_restart'] = 1
        incident = None
        try:
            sim.run()
        except SimIncident as inc:
            incident = inc
        if cfg.get('reboot') and incident is None and not violations:
            arr = [t for k, t in wave2 if k == 'arrive']
            st = [t for k, t in wave2 if k == 'start']
            bound = 10.0 / rate + 10.0
            for a, b in zip(arr, st):
                if b - a > bound:
                    violations.append({'rule': 'C20/throttle-starved-after-restart', 'sig': 'wait',
                                       'detail': 'after the restart (clock reading 100000 s lower) a call waited %.1f s; at %.3f calls/s a '
                                                 'freshly decorated function lets it through within %.1f s' % (b - a, rate, bound)})
                    break
            if len(st) != len(arr) and not violations:
                violations.append({'rule': 'C20/throttle-call-lost', 'sig': 'restart', 'detail': '%d of %d calls started after the restart' % (len(st), len(arr))})
        if cfg.get('procs'):
            probes['throttle_across_processes'] = 1
        total_calls = sum(len(a) for a in cfg['arrivals'])
        if cfg.get('kill') and any(f.get('done') for f in sim.faults):
            probes['caller_killed'] = 1
            vi = cfg['kill']['i']
            # the dead process owes nothing more; the survivors make all their calls
            total_calls = sum(len(a) for n, a in enumerate(cfg['arrivals']) if n != vi) + sum(1 for _, who in starts if who == 'c%d' % vi)
        if incident is not None:
            if incident.kind in ('stepcap', 'deadlock'):
                violations.append({'rule': 'C20/throttle-no-progress', 'sig': incident.kind,
                                   'detail': '%s; %d of %d calls started' % (str(incident)[:150], len(starts), total_calls)})
            else:
                raise incident
        else:
            for t in tasks:
                if t.exc is not None and not isinstance(t.exc, (Killed, Aborted)):
                    violations.append({'rule': 'C20/unexpected-exception', 'sig': type(t.exc).__name__, 'detail': '%s: %s' % (t.name, str(t.exc)[:100])})
            if len(starts) != total_calls and not violations:
                violations.append({'rule': 'C20/throttle-call-lost', 'sig': 'count', 'detail': '%d of %d calls started' % (len(starts), total_calls)})
        ts = sorted(t for t, _ in starts)
        eps = 1e-6
        worst = None
        for i in range(len(ts)):
            for j in range(i, len(ts)):
                n = j - i + 1
                allowed = max(count, 1) + rate * (ts[j] - ts[i]) + eps      # a burst size below one still lets single calls through
                if n > allowed and (worst is None or n - allowed > worst[0]):
                    worst = (n - allowed, i, j)
        if worst is not None:
            _, i, j = worst
            violations.append({'rule': 'C20/throttle-rate-exceeded', 'sig': 'window',
                               'detail': '%d starts within %.6f s (from t=%.6f), allowed %d + %.3f/s' % (
                                   j - i + 1, ts[j] - ts[i], ts[i] - t_decorated, count, rate)})
        delayed = sim.probes.get('throttle_sleeps', 0)
        probes['throttle_calls'] = len(starts)
        # a call was delayed if its start is later than its arrival by more than the step overhead
        arr = sorted(a[0] for a in arrivals_log)
        if ts and arr and any(s - a > 1e-3 for s, a in zip(ts, arr)):
            probes['throttle_delayed'] = 1
        res = {'violations': violations, 'digest': sim.digest(), 'steps': sim.step, 'switches': sim.switches, 'fired': {},
               'probes': dict(sim.probes, **probes), 'virtual_s': sim.now - sim._t0, 'picks': sim.picks[:500],
               'nontrivial': bool(probes.get('throttle_delayed')), 'outcome': {'starts': len(starts), 'span_s': round(ts[-1] - ts[0], 6) if ts else 0}}
        cache.close()
    finally:
        world.close()
    return res


def run_case(case):
    if case['cfg']['kind'] == 'averager':
        return run_averager(case)
    return run_throttle(case)


def shrink_candidates(case):
    import copy
    if case['cfg']['kind'] == 'averager':
        from ..runner import generic_candidates
        for c in generic_candidates(case):
            yield c
        return
    arr = case['cfg']['arrivals']
    if len(arr) > 1:
        for i in range(len(arr)):
            c = copy.deepcopy(case)
            del c['cfg']['arrivals'][i]
            yield c
    for i, gaps in enumerate(arr):
        for j in reversed(range(len(gaps))):
            if len(gaps) > 1:
                c = copy.deepcopy(case)
                del c['cfg']['arrivals'][i][j]
                yield c
