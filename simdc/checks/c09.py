"""C09 - eviction starts only at the size limit and follows the configured
policy order.  Single-client histories of writes and reads over values of
varying size under a small size_limit, for each policy x cull_limit, with
expired items mixed in; the removal set observed after every write is judged
(E1 only at the limit, E2 policy order, E3 at most cull_limit and expired
first, E4 policy none never evicts, E5 explicit cull()).  DESIGN.md 9, C09."""
import hashlib
import json
import random

from .. import seqcache, vals
from ..seq import RawView
from ..ops import fp, run_op
from ..world import World

PROPERTY = 'C09'
LEVEL = 'exploration'
QUICK_S = 30
THOROUGH_S = 420
BATCH = 4
RULE = ('one evaluation = one seeded single-client history (30-200 calls) of writes (set/add/incr, values 0.5-20 KB, mostly '
        'file-backed), reads that refresh recency/frequency, clock steps, expiring items and explicit cull() under size_limit in '
        '100 KB-400 KB (one shape in five: values of 30-70 % of the limit refreshed in turn below the limit) x policy in {least-recently-stored, least-recently-used, least-frequently-used, none} x cull_limit in '
        '{0,1,2,10}, on Cache and (per shard) on FanoutCache; after every call the physically removed rows are compared with what '
        'the policy permits; non-trivial = at least one size eviction or expired cull was observed; distinct = SHA-256 of '
        '(configuration, program)')
RULE += ' ' + 'cull_limit also takes the values 12 and 25.'
RULE += ' ' + 'One seed in 61 fills a cache to its limit and writes inside transact() blocks.'
ASSUMPTIONS = ['"reached the size limit" is decided black-box: volume() before the write - size of the item it replaces + size of the new value + 8 database pages of slack >= size_limit',
               'policy keys (store time, access time, access count) are maintained by the model from the virtual clock readings; ties are accepted in any order']
PROBES = ('evictions', 'cull_expired', 'cull_policy', 'at_limit_writes', 'fanout_runs', 'writes_inside_blocks_at_limit')
TECHNIQUE = 'deterministic simulation (virtual clock drives store/access times) + model-based judging of every observed removal set against the policy'
LEVEL_TEXT = ('seeded exploration of write/read histories under a controlled clock; eviction is nondeterministic in the model, so each '
              'observed removal set is validated for legality (limit reached, policy order, count bound, expired first) and then adopted.')
LEVEL_NOTE = 'trusted: the reference model of policy metadata, SQLite page accounting behind volume(), tmpfs'

SLACK_PAGES = 8


def gen_case(seed, tier):
    rng = random.Random('%s/c09' % seed)
    if seed % 61 == 5:
        # a cache that has reached its size limit, and writes made inside transact() blocks: eviction is not put off
        return {'seed': seed, 'cfg': {'kind': 'block', 'policy': rng.choice(('least-recently-stored', 'least-recently-used', 'least-frequently-used')),
                                      'cull_limit': rng.choice((1, 2, 10)), 'fanout': rng.random() < 0.3, 'writes': rng.choice((1, 3)),
                                      'how': rng.choice(('set', 'add', 'incr', 'push'))}, 'prog': []}
    policy = rng.choice(('least-recently-stored', 'least-recently-used', 'least-frequently-used', 'none'))
    settings = {'eviction_policy': policy, 'cull_limit': rng.choice((0, 1, 2, 10, 10, 12, 25)), 'statistics': rng.choice((0, 1)),
                'tag_index': 0, 'disk_min_file_size': rng.choice((256, 1024)), 'size_limit': rng.choice((100000, 200000, 400000))}
    fanout = rng.random() < 0.2
    n = rng.choice((30, 60, 100)) if tier == 'quick' else rng.choice((50, 120, 200))
    keys = list(range(rng.choice((8, 16, 40))))
    prog = []
    for i in range(n):
        r = rng.random()
        k = rng.choice(keys)
        if r < 0.5:
            size = rng.choice((600, 2000, 5000, 12000, 20000))
            op = {'op': rng.choice(('set', 'set', 'set', 'add')), 'k': k, 'v': {'big': ['bytes', size, 'v%d' % i]}}
            if rng.random() < 0.2:
                op['expire'] = rng.choice((1, 5, 30))
        elif r < 0.53:
            # a big value (a third of the limit and more) written to one of two keys again and again: each write replaces as
            # much as it adds
            op = {'op': 'set', 'k': 'bulky%d' % rng.randrange(2), 'v': {'big': ['bytes', int(settings['size_limit'] * rng.choice((0.3, 0.4))), 'B%d' % i]}}
        elif r < 0.56:
            op = {'op': 'set', 'k': 'ctr%d' % rng.randrange(3), 'v': rng.randrange(10)}
        elif r < 0.62:
            op = {'op': 'incr', 'k': 'ctr%d' % rng.randrange(3)}
        elif r < 0.82:
            op = {'op': rng.choice(('get', 'get', 'getitem', 'contains', 'read', 'peekitem')), 'k': k}
            if op['op'] == 'get':
                # the flags take another path through get(): it is a use of the item all the same
                if rng.random() < 0.3:
                    op['expire_time'] = True
                if rng.random() < 0.3:
                    op['tag'] = True
            if op['op'] == 'peekitem':
                op = {'op': 'peekitem', 'last': rng.random() < 0.5}
        elif r < 0.86:
            op = {'op': 'touch', 'k': k, 'expire': rng.choice((1, 100))}
        elif r < 0.89:
            op = {'op': rng.choice(('delete', 'pop')), 'k': k}
        elif r < 0.93:
            op = {'op': 'cull'}
        elif r < 0.95:
            op = {'op': 'expire'}
        elif r < 0.965 and not fanout:
            # the policy is a stored setting: another handle may change it, this one reloads it
            op = {'op': 'repolicy', 'policy': rng.choice(('least-recently-stored', 'least-recently-used', 'least-frequently-used', 'none'))}
        else:
            op = {'op': 'advance', 'dt': rng.choice((0.001, 0.5, 2, 10))}
        prog.append(op)
        if op['op'] != 'advance' and rng.random() < 0.5:
            prog.append({'op': 'advance', 'dt': rng.choice((0.001, 0.01, 1))})
    if rng.random() < 0.3:
        # a cache filled to its limit largely by big items that have expired: the first culling write frees far more than
        # it adds, so nothing live may be evicted by that write
        limit = settings['size_limit']
        n_exp = rng.randint(3, 6)
        # small cull budget and small old items: each big write evicts less than it adds, so the cache sits above its limit
        settings['cull_limit'] = n_exp + rng.choice((1, 2))
        settings['eviction_policy'] = rng.choice(('least-recently-stored', 'least-recently-used'))
        pre = [{'op': 'set', 'k': 9000 + j, 'v': {'big': ['bytes', 20000, 'e%d' % j]}, 'expire': 1} for j in range(n_exp)]
        live = []
        total = 40000      # database pages count towards volume()
        j = 0
        while total < limit - 5000 and j < 400:
            sz = rng.choice((600, 1200, 2000))
            live.append({'op': 'set', 'k': 9500 + j, 'v': {'big': ['bytes', sz, 'l%d' % j]}})
            live.append({'op': 'advance', 'dt': 0.001})
            total += sz
            j += 1
        block = live + pre + [{'op': 'advance', 'dt': 5}]
        block += [{'op': 'set', 'k': 9900 + j2, 'v': {'big': ['bytes', rng.choice((600, 2000)), 'w%d' % j2]}} for j2 in range(3)]
        prog = block + prog
    elif rng.random() < 0.2:
        # a cache that stays well below its limit while big values (30-40 % of it each) are refreshed in turn: every write
        # replaces as much as it adds, so nothing may ever be evicted for size
        limit = settings['size_limit']
        prog = []
        nb = rng.choice((1, 2))
        for i in range(n // 2):
            r = rng.random()
            if r < 0.5:
                wr = rng.choice(('set', 'set', 'add', 'incr_over'))
                big = {'big': ['bytes', int(limit * rng.choice((0.3, 0.4, 0.45) if nb == 2 else (0.5, 0.7))), 'R%d' % i]}
                k = 'bulky%d' % rng.randrange(nb)
                if wr == 'set':
                    prog.append({'op': 'set', 'k': k, 'v': big})
                else:
                    # add over an expired big item replaces it as well
                    prog.append({'op': 'set', 'k': k, 'v': big, 'expire': 1})
                    prog.append({'op': 'advance', 'dt': 2})
                    if wr == 'add':
                        prog.append({'op': 'add', 'k': k, 'v': {'big': ['bytes', big['big'][1], 'A%d' % i]}})
                    else:
                        prog.append({'op': 'incr', 'k': k})
            elif r < 0.7:
                prog.append({'op': 'set', 'k': rng.randrange(4), 'v': {'big': ['bytes', rng.choice((600, 2000)), 's%d' % i]}})
            elif r < 0.9:
                prog.append({'op': rng.choice(('get', 'read', 'contains')), 'k': rng.choice(('bulky0', 'bulky1', 0, 1, 2, 3))})
            else:
                prog.append({'op': 'advance', 'dt': rng.choice((0.001, 1))})
            if rng.random() < 0.5:
                prog.append({'op': 'advance', 'dt': 0.001})
    cfg = {'settings': settings, 'profile': 'evict', 'fanout': fanout, 'shards': rng.choice((2, 3, 8))}
    return {'seed': seed, 'cfg': cfg, 'prog': prog}


def run_block(case):
    from ..world import World
    from ..seq import RawView
    cfg = case['cfg']
    violations = []
    world = World(case['seed'], clock={'mode': 'frozen'}, yield_clock=False)
    sim = world.sim
    try:
        dc = world.dc
        kw = dict(eviction_policy=cfg['policy'], cull_limit=cfg['cull_limit'], size_limit=200000, disk_min_file_size=64)
        cache = dc.FanoutCache(world.path('f'), shards=1, **kw) if cfg['fanout'] else dc.Cache(world.path('c'), **kw)
        i = 0
        while cache.volume() < 200000 and i < 200:
            cache.set('fill-%03d' % i, b'f' * 8000)
            sim.advance(0.01)
            i += 1
        shard = cache._shards[0] if cfg['fanout'] else cache
        raw = RawView(shard.directory)
        for w in range(cfg['writes']):
            before = set(raw.rowids())
            vol = cache.volume()
            with cache.transact():
                if cfg['how'] == 'set':
                    cache.set('new-%d' % w, b'n' * 8000)
                elif cfg['how'] == 'add':
                    cache.add('new-%d' % w, b'n' * 8000)
                elif cfg['how'] == 'incr':
                    cache.incr('ctr-%d' % w)
                else:
                    shard.push(b'n' * 8000, prefix='q')
            gone = before - set(raw.rowids())
            if vol >= 200000 and not gone:
                violations.append({'rule': 'C09/limit-reached-nothing-evicted', 'sig': 'write-inside-a-block:%s' % cfg['how'],
                                   'detail': '%s inside transact() with volume() %d >= size_limit 200000, cull_limit %d, policy %s: no item was removed'
                                             % (cfg['how'], vol, cfg['cull_limit'], cfg['policy'])})
                break
            if len(gone) > cfg['cull_limit']:
                violations.append({'rule': 'C09/cull-limit-exceeded', 'sig': 'write-inside-a-block', 'detail': '%d rows removed, cull_limit %d' % (len(gone), cfg['cull_limit'])})
                break
            sim.advance(0.01)
        raw.close()
        cache.close()
    finally:
        world.close()
    digest = hashlib.sha256(json.dumps(case['cfg'], sort_keys=True).encode()).hexdigest()
    return {'violations': violations, 'digest': digest, 'steps': 30, 'switches': 0, 'fired': {}, 'probes': {'writes_inside_blocks_at_limit': 1, 'evictions': 1},
            'virtual_s': 0.0, 'nontrivial': True, 'outcome': {'ops': 30}}


def value_size_upper(op):
    v = op.get('v')
    if isinstance(v, dict) and 'big' in v:
        kind, n, _ = v['big']
        return n * (4 if kind != 'bytes' else 1) + 200
    return 200


def at_limit(cache, model, op):
    if op['op'] not in ('set', 'setitem', 'add', 'incr', 'decr', 'push'):
        return None
    vol = cache.volume()
    # a write that replaces an item gives that item's bytes back before it is measured against the limit
    replaced = 0
    if 'k' in op:
        it = model._find(op['k'])[2]
        if it is not None:
            replaced = it.size or 0
    return {'vol': vol, 'upper': value_size_upper(op), 'slack': SLACK_PAGES * cache._page_size, 'replaced': replaced,
            'maybe': vol - replaced + value_size_upper(op) + SLACK_PAGES * cache._page_size >= model.size_limit}


def run_case(case):
    if case['cfg'].get('kind') == 'block':
        return run_block(case)
    if case['cfg'].get('fanout'):
        return run_fanout(case)
    seen = {'at_limit': 0}

    def fn(cache, model, op):
        r = at_limit(cache, model, op)
        if r and r['maybe']:
            seen['at_limit'] += 1
        return r

    info = {}

    def on_step(cache, model, op, got, violations):
        info['evictions'] = model.evictions

    violations, stats = seqcache.run_prog(case, PROPERTY, at_limit_fn=fn, on_step=on_step)
    digest = hashlib.sha256(json.dumps([case['cfg'], case['prog']], sort_keys=True).encode()).hexdigest()
    stats['probes']['evictions'] = info.get('evictions', 0)
    stats['probes']['at_limit_writes'] = seen['at_limit']
    return {'violations': violations, 'digest': digest, 'steps': stats['ops'], 'switches': 0, 'fired': {},
            'probes': stats['probes'], 'virtual_s': stats.get('virtual_s', 0.0),
            'nontrivial': bool(info.get('evictions')) or bool(stats['probes'].get('cull_expired')),
            'outcome': {'ops': stats['ops'], 'evictions': info.get('evictions', 0)}}


def run_fanout(case):
    """Per shard: the limit is divided by the shard count and no shard loses a
    live item while its own volume is clearly below its share."""
    cfg = case['cfg']
    settings = dict(cfg['settings'])
    shards = cfg['shards']
    violations = []
    probes = {'fanout_runs': 1}
    world = World(case['seed'], clock={'mode': 'frozen'}, yield_clock=False)
    sim = world.sim
    nops = 0
    evictions = 0
    try:
        dc = world.dc
        fc = dc.FanoutCache(world.path('f'), shards=shards, **settings)
        share = settings['size_limit'] / shards
        for sh in fc._shards:
            if sh.size_limit != share:
                violations.append({'rule': 'C09/fanout-limit-not-divided', 'sig': 'size_limit',
                                   'detail': 'shard size_limit %r, expected %r' % (sh.size_limit, share)})
        raws = [RawView(sh.directory) for sh in fc._shards]
        live = [dict() for _ in fc._shards]      # per shard: rowid -> expire_time
        for idx, op in enumerate(case['prog']):
            if violations:
                break
            if op['op'] == 'advance':
                sim.advance(op['dt'])
                continue
            if op['op'] in ('cull', 'expire'):
                op = dict(op)
            nops += 1
            now = sim.now
            vols = [sh.volume() for sh in fc._shards]
            before = [dict((r[0], r[4]) for r in rv.rows()) for rv in raws]
            got = run_op(fc, op)
            after = [dict((r[0], r[4]) for r in rv.rows()) for rv in raws]
            explicit = op['op'] in ('delete', 'pop', 'cull', 'expire')
            for si in range(shards):
                gone = [rid for rid in before[si] if rid not in after[si]]
                gone_live = [rid for rid in gone if before[si][rid] is None or before[si][rid] >= now]
                if not gone_live or explicit:
                    if op['op'] == 'cull' and gone_live:
                        evictions += len(gone_live)
                        if vols[si] <= share:
                            violations.append({'rule': 'C09/evicted-below-size-limit', 'sig': 'fanout-cull',
                                               'detail': 'shard %d: cull() evicted live items at volume %d <= share %d' % (si, vols[si], share)})
                    continue
                evictions += len(gone_live)
                if settings['eviction_policy'] == 'none':
                    violations.append({'rule': 'C09/policy-none-evicted', 'sig': 'fanout', 'detail': 'shard %d lost %s' % (si, gone_live[:4])})
                if len(gone) > settings['cull_limit']:
                    violations.append({'rule': 'C09/cull-limit-exceeded', 'sig': 'fanout', 'detail': 'shard %d: %d removed, cull_limit %d' % (si, len(gone), settings['cull_limit'])})
                if vols[si] + value_size_upper(op) + SLACK_PAGES * fc._shards[si]._page_size < share:
                    violations.append({'rule': 'C09/evicted-below-size-limit', 'sig': 'fanout-shard',
                                       'detail': 'after op #%d %s shard %d lost live rows %s at volume %d, share of the limit %d' % (
                                           idx, json.dumps(op)[:80], si, gone_live[:4], vols[si], share)})
        for rv in raws:
            rv.close()
        fc.close()
    finally:
        world.close()
    digest = hashlib.sha256(json.dumps([case['cfg'], case['prog']], sort_keys=True).encode()).hexdigest()
    probes['evictions'] = evictions
    return {'violations': violations, 'digest': digest, 'steps': nops, 'switches': 0, 'fired': {}, 'probes': probes,
            'virtual_s': 0.0, 'nontrivial': evictions > 0, 'outcome': {'ops': nops, 'evictions': evictions}}


from .c03 import shrink_candidates  # noqa
