"""C11 - Deque is a persistent collections.deque.  Single-client differential
runs against collections.deque (every method, maxlen changes, indices over the
whole span, reopen / pickle / copy at arbitrary points, Deques obtained from
FanoutCache.deque and DjangoCache.deque, tiny size_limit on the underlying
cache), and 2-3 concurrent appenders/poppers checked for linearizability
against a deque with that maxlen.  DESIGN.md section 9, C11."""
import collections
import copy
import hashlib
import json
import pickle
import random

from .. import conc, lin, vals
from ..audit import audit, check_messages
from ..ops import fp, fp_spec, run_op
from ..world import World
from . import c05

PROPERTY = 'C11'
LEVEL = 'exploration'
QUICK_S = 30
THOROUGH_S = 420
BATCH = 6
RULE = ('one evaluation = one seeded run: a single-client sequence of 10-120 Deque calls (append/appendleft/extend/extendleft/pop/'
        'popleft/peek/peekleft/indexing/assignment/deletion by index in -7..7/rotate/reverse/remove/count/comparison/iteration both '
        'ways/clear/maxlen changes/+=) with lifecycle events (reopen, pickle round trip, copy, simulated restart) over inline and '
        'file-backed values, maxlen in {None,0,1,3,5}, compared call by call (result, exception class, list(deque)) with '
        'collections.deque; or 2-3 concurrent appenders/poppers under the seeded scheduler checked for linearizability against a '
        'deque with the same maxlen; non-trivial = at least 5 calls / a context switch; distinct = SHA-256 of program or event log')
RULE += ' ' + "Sequences on a Deque obtained from a FanoutCache / DjangoCache also contain the parent's own clear / expire / cull / evict / set / delete calls."
RULE += ' ' + "The parent's calls include looking the same name up again with another maxlen; in 40 % of the runs with a parent the name holds ':' '*' '?' '|' '/' and sibling objects under colliding spellings hold marker items."
RULE += ' ' + 'Sequences include removals and changes made through a second live handle on the directory.'
RULE += ' ' + 'Sequences assign items and append / pop from inside a loop over the deque.'
ASSUMPTIONS = ['values compare by == as collections.deque does; NaN values are not used']
PROBES = ('own_temporary_directory', 'lifecycle', 'maxlen_discard', 'from_fanout', 'from_django', 'parent_calls', 'named_with_special_characters', 'changed_through_another_handle', 'loop_body_writes', 'lock_wait')
TECHNIQUE = 'deterministic simulation (seeded file/temp names, simulated processes) + differential testing against collections.deque; seeded schedules + linearizability for concurrent use'
LEVEL_TEXT = ('seeded exploration of method sequences with lifecycle events, each call compared with collections.deque; concurrent '
              'producer/consumer interleavings are explored by the seeded scheduler and decided by a linearizability search.')
LEVEL_NOTE = 'trusted: collections.deque as the reference, SQLite, simulator kernel'

SMALL = [0, 1, 2, 'a', 'b', {'b': '00'}, None, {'t': [1, 2]}, {'f': '1.5'}]


def gen_case(seed, tier):
    rng = random.Random('%s/c11' % seed)
    conc_run = rng.random() < 0.3
    mfs = rng.choice((0, 8, 8, 2 ** 15))
    big_n = {0: 12, 8: 40, 2 ** 15: 2 ** 15 + 5}[mfs]
    maxlen = rng.choice((None, None, 0, 1, 3, 5))
    if conc_run:
        progs = {}
        for ci in range(rng.choice((2, 3))):
            prog = []
            for j in range(rng.randint(2, 6)):
                name = rng.choice(('append', 'append', 'appendleft', 'dpop', 'dpopleft', 'dpeek'))
                op = {'op': name}
                if name.startswith('append'):
                    op['v'] = c05.uniq_value(rng, ci, j, big_n)
                prog.append(op)
            progs['c%d' % ci] = prog
        cfg = {'kind': 'conc', 'target': 'deque', 'maxlen': maxlen, 'settings': {},
               'topology': rng.choice(('shared', 'own', 'procs')),
               'sched': rng.choice(({'kind': 'uniform'}, {'kind': 'sticky', 'p': 0.7}, {'kind': 'pct', 'd': 2, 'horizon': 200})),
               'clock': {'mode': 'frozen'}, 'yield_clock': False, 'dircollide': rng.random() < 0.5, 'mfs': mfs,
               'line_p': 0.0, 'post_stmt_yield': rng.random() < 0.5}
        if cfg['topology'] == 'shared':
            cfg['line_p'] = rng.choice((0.0, 0.05))
        return {'seed': seed, 'cfg': cfg, 'progs': progs, 'faults': []}
    n = rng.choice((10, 30, 60)) if tier == 'quick' else rng.choice((20, 60, 120))
    prog = []
    for i in range(n):
        r = rng.random()
        v = rng.choice(SMALL) if rng.random() < 0.75 else {'big': [rng.choice(('bytes', 'str')), big_n, 'v%d' % rng.randrange(4)]}
        idx = rng.randint(-7, 7)
        if r < 0.16:
            op = {'op': rng.choice(('append', 'appendleft')), 'v': v}
        elif r < 0.24:
            op = {'op': rng.choice(('extend', 'extendleft', 'iadd')), 'vs': [rng.choice(SMALL) for _ in range(rng.randint(0, 4))],
                  # what is handed over: a list, a generator, a generator that raises after the items, or the deque itself
                  'src': rng.choice(('list', 'list', 'gen', 'raise', 'self'))}
        elif r < 0.36:
            op = {'op': rng.choice(('pop', 'popleft', 'peek', 'peekleft'))}
        elif r < 0.46:
            op = {'op': 'getitem', 'i': idx}
        elif r < 0.54:
            op = {'op': 'setitem', 'i': idx, 'v': v}
        elif r < 0.60:
            op = {'op': 'delitem', 'i': idx}
        elif r < 0.66:
            op = {'op': 'rotate', 'n': rng.choice((0, 1, -1, 2, -3, 7, 100, -100))}
        elif r < 0.69:
            op = {'op': 'reverse'}
        elif r < 0.74:
            op = {'op': rng.choice(('remove', 'count', 'index', 'contains')), 'v': rng.choice(SMALL)}
            if op['op'] == 'index' and rng.random() < 0.7:
                op['start'] = rng.randint(-7, 7)
                if rng.random() < 0.5:
                    op['stop'] = rng.randint(-7, 7)
        elif r < 0.76:
            op = {'op': 'clear'}
        elif r < 0.80:
            op = {'op': 'len'}
        elif r < 0.84:
            op = {'op': rng.choice(('list', 'reversed'))}
        elif r < 0.88:
            op = {'op': 'cmp', 'rel': rng.choice(('eq', 'ne', 'lt', 'le', 'gt', 'ge')),
                  'other': [rng.choice((0, 1, 2)) for _ in range(rng.randint(0, 3))]}
        elif r < 0.92:
            op = {'op': 'maxlen', 'n': rng.choice((None, 0, 1, 3, 5))}
        elif r < 0.93:
            op = {'op': 'rotate_bad'}
        elif r < 0.94:
            op = {'op': 'iter_mutate', 'how': rng.choice(('assign', 'change-and-break'))}
        elif r < 0.96:
            op = {'op': 'via_other', 'inner': rng.choice(({'op': 'delitem', 'i': rng.randint(-4, 4)}, {'op': 'remove', 'v': rng.choice(SMALL)},
                                                          {'op': 'setitem', 'i': rng.randint(-4, 4), 'v': rng.choice(SMALL)},
                                                          {'op': 'popleft'}, {'op': 'appendleft', 'v': rng.choice(SMALL)}))}
        else:
            op = {'op': rng.choice(('reopen', 'pickle', 'copy', 'restart'))}
        prog.append(op)
    cfg = {'kind': 'seq', 'maxlen': maxlen, 'mfs': mfs, 'origin': rng.choice(('direct', 'direct', 'fanout', 'django', 'temp')),
           'tiny_limit': rng.random() < 0.3}
    # the parent a Deque is obtained from may have been built with its own eviction settings: they are the parent's, a Deque never evicts
    cfg['parent_opts'] = rng.choice(({}, {}, {'eviction_policy': 'least-recently-used', 'size_limit': 2 ** 16, 'cull_limit': 10},
                                     {'eviction_policy': 'least-frequently-used', 'cull_limit': 2, 'statistics': 1, 'tag_index': 1}))
    if cfg['origin'] in ('fanout', 'django') and rng.random() < 0.4:
        cfg['subname'] = rng.choice(('jobs:eu', 'q*1', 'a?b', 'x|y', 'ns:a/b:c'))
    if cfg['origin'] in ('fanout', 'django') and rng.random() < 0.6:
        # the parent goes about its own business meanwhile: its keys, its housekeeping - none of it concerns what it handed out
        for _ in range(rng.randint(1, 4)):
            prog.insert(rng.randint(0, len(prog)), {'op': 'parent', 'call': rng.choice(('clear', 'clear', 'expire', 'cull', 'evict', 'set', 'delete', 'lookup', 'lookup'))})
    return {'seed': seed, 'cfg': cfg, 'prog': prog}


def parent_call(parent, call, name='dq'):
    if call == 'set':
        if type(parent).__name__ == 'DjangoCache':
            parent.set('pk', 'parent value', timeout=30, tag='t')
        else:
            parent.set('pk', 'parent value', expire=30, tag='t')
    elif call == 'delete':
        parent.delete('pk')
    elif call == 'evict':
        parent.evict('t')
    elif call == 'lookup':
        # another part of the program looks the same named object up again (for a Deque: with another maxlen in mind)
        parent.deque(name, maxlen=2)
    else:
        getattr(parent, call)()


def _norm(fn):
    try:
        return ('ok', fp(fn()))
    except Exception as exc:  # noqa
        return ('exc', type(exc).__name__)


CMP = {'eq': lambda a, b: a == b, 'ne': lambda a, b: a != b, 'lt': lambda a, b: a < b,
       'le': lambda a, b: a <= b, 'gt': lambda a, b: a > b, 'ge': lambda a, b: a >= b}


def apply_both(dq, ref, op):
    """Returns (result on Deque, result on collections.deque)."""
    name = op['op']
    if name in ('append', 'appendleft'):
        v = vals.dec(op['v'])
        return _norm(lambda: getattr(dq, name)(v)), _norm(lambda: getattr(ref, name)(v))
    if name in ('extend', 'extendleft', 'iadd'):
        vs = [vals.dec(x) for x in op['vs']]
        src = op.get('src', 'list')

        def source(me):
            if src == 'self':
                return me
            if src == 'list':
                return vs

            def gen():
                for v in vs:
                    yield v
                if src == 'raise':
                    raise ZeroDivisionError('the iterable fails after %d items' % len(vs))
            return gen()

        if name != 'iadd':
            return _norm(lambda: getattr(dq, name)(source(dq))), _norm(lambda: getattr(ref, name)(source(ref)))

        def a():
            d = dq
            d += source(dq)
            return d is dq

        def b():
            r = ref
            r += source(ref)
            return r is ref
        return _norm(a), _norm(b)
    if name in ('pop', 'popleft'):
        return _norm(getattr(dq, name)), _norm(getattr(ref, name))
    if name == 'peek':
        return _norm(dq.peek), (_norm(lambda: ref[-1]) if len(ref) else ('exc', 'IndexError'))
    if name == 'peekleft':
        return _norm(dq.peekleft), (_norm(lambda: ref[0]) if len(ref) else ('exc', 'IndexError'))
    if name == 'getitem':
        return _norm(lambda: dq[op['i']]), _norm(lambda: ref[op['i']])
    if name == 'setitem':
        v = vals.dec(op['v'])
        return _norm(lambda: dq.__setitem__(op['i'], v)), _norm(lambda: ref.__setitem__(op['i'], v))
    if name == 'delitem':
        return _norm(lambda: dq.__delitem__(op['i'])), _norm(lambda: ref.__delitem__(op['i']))
    if name == 'rotate':
        return _norm(lambda: dq.rotate(op['n'])), _norm(lambda: ref.rotate(op['n']))
    if name == 'rotate_bad':
        return _norm(lambda: dq.rotate('x')), _norm(lambda: ref.rotate('x'))
    if name == 'reverse':
        return _norm(dq.reverse), _norm(ref.reverse)
    if name == 'remove':
        v = vals.dec(op['v'])
        return _norm(lambda: dq.remove(v)), _norm(lambda: ref.remove(v))
    if name == 'count':
        v = vals.dec(op['v'])
        return _norm(lambda: dq.count(v)), _norm(lambda: ref.count(v))
    if name == 'contains':
        v = vals.dec(op['v'])
        return _norm(lambda: v in dq), _norm(lambda: v in ref)
    if name == 'index':
        v = vals.dec(op['v'])
        args = [op[k] for k in ('start', 'stop') if k in op]
        return _norm(lambda: dq.index(v, *args)), _norm(lambda: ref.index(v, *args))
    if name == 'clear':
        return _norm(dq.clear), _norm(ref.clear)
    if name == 'len':
        return _norm(lambda: len(dq)), _norm(lambda: len(ref))
    if name == 'list':
        return _norm(lambda: [fp(x) for x in dq]), _norm(lambda: [fp(x) for x in ref])
    if name == 'reversed':
        return _norm(lambda: [fp(x) for x in reversed(dq)]), _norm(lambda: [fp(x) for x in reversed(ref)])
    if name == 'cmp':
        other = collections.deque(op['other'])
        return _norm(lambda: CMP[op['rel']](dq, other)), _norm(lambda: CMP[op['rel']](ref, other))
    raise ValueError(name)


def run_seq(case):
    cfg = case['cfg']
    violations = []
    probes = {}
    world = World(case['seed'], clock={'mode': 'frozen'}, yield_clock=False)
    sim = world.sim
    nops = 0
    try:
        dc = world.dc
        maxlen = cfg['maxlen']
        path = world.path('d')
        parent = None
        # the name under which the parent keeps the object: characters that mean something to file systems, URIs or patterns are
        # part of the name; objects whose names differ only in such characters are different objects
        subname = cfg.get('subname', 'dq')
        siblings = {}
        if cfg['origin'] == 'fanout':
            parent = dc.FanoutCache(world.path('f'), shards=2, **cfg.get('parent_opts', {}))
            dq = parent.deque(subname, maxlen=maxlen)
            probes['from_fanout'] = 1
        elif cfg['origin'] == 'django':
            from .. import seams
            mod = seams.install_django()
            parent = mod.DjangoCache(world.path('dj'), {'SHARDS': 2, 'OPTIONS': dict(cfg.get('parent_opts', {}))})
            dq = parent.deque(subname, maxlen=maxlen)
            probes['from_django'] = 1
        elif cfg['origin'] == 'temp':
            # no directory given: the object makes its own, which then belongs to everything that refers to it by path
            dq = dc.Deque(maxlen=maxlen)
            probes['own_temporary_directory'] = 1
        else:
            dq = dc.Deque(directory=path, maxlen=maxlen)
        directory = dq.directory
        if parent is not None and subname != 'dq':
            for alias in sorted(({subname.replace(c, '_') for c in ':*?"<>|'} | {subname.replace(':', '*')}) - {subname}):
                sib = parent.deque(alias)
                sib.append('sibling of ' + alias)
                siblings[alias] = sib
            probes['named_with_special_characters'] = 1
        dq.cache.reset('disk_min_file_size', cfg['mfs'])
        if cfg.get('tiny_limit'):
            dq.cache.reset('size_limit', 1000)
            dq.cache.reset('cull_limit', 10)
        ref = collections.deque(maxlen=maxlen)
        pidn = 1
        for idx, op in enumerate(case['prog']):
            name = op['op']
            nops += 1
            if name == 'maxlen':
                dq.maxlen = float('inf') if op['n'] is None else op['n']
                ref = collections.deque(ref, maxlen=op['n'])
                maxlen = op['n']
                got = want = None
            elif name in ('reopen', 'restart'):
                if name == 'restart':
                    pidn += 1
                    sim.harness_proc.pid = pidn
                dq.cache.close()
                dq = dc.Deque(directory=directory, maxlen=maxlen)
                probes['lifecycle'] = probes.get('lifecycle', 0) + 1
                got = want = None
            elif name == 'parent':
                parent_call(parent, op['call'], subname)
                probes['parent_calls'] = probes.get('parent_calls', 0) + 1
                got = want = None
            elif name == 'via_other':
                # another live handle on the same directory (a copy, another process) removes / changes an element in the
                # middle; this handle goes on afterwards
                other = dc.Deque(directory=directory, maxlen=maxlen)
                pair = apply_both(other, ref, op['inner'])
                got, want = pair[0], pair[1]
                other.cache.close()
                probes['changed_through_another_handle'] = probes.get('changed_through_another_handle', 0) + 1
            elif name == 'iter_mutate':
                # writes from inside a loop over the deque, through the same handle: item assignment at every step, or one
                # change and out
                def body(d):
                    if op['how'] == 'assign':
                        for i, x in enumerate(d):
                            d[i] = x
                            if i >= 3:
                                break
                    else:
                        for x in d:
                            d.append(x)
                            d.popleft()
                            break
                    return list(d)
                got, want = _norm(lambda: [fp(x) for x in body(dq)]), _norm(lambda: [fp(x) for x in body(ref)])
                probes['loop_body_writes'] = probes.get('loop_body_writes', 0) + 1
            elif name == 'pickle':
                dq = pickle.loads(pickle.dumps(dq))
                if dq.maxlen != (float('inf') if maxlen is None else maxlen):
                    violations.append({'rule': 'C11/maxlen-lost', 'sig': 'pickle', 'detail': '%r != %r' % (dq.maxlen, maxlen)})
                probes['lifecycle'] = probes.get('lifecycle', 0) + 1
                got = want = None
            elif name == 'copy':
                dq = dq.copy()
                if dq.maxlen != (float('inf') if maxlen is None else maxlen):
                    violations.append({'rule': 'C11/maxlen-lost', 'sig': 'copy', 'detail': '%r != %r' % (dq.maxlen, maxlen)})
                probes['lifecycle'] = probes.get('lifecycle', 0) + 1
                got = want = None
            else:
                if cfg['origin'] == 'temp':
                    import gc
                    gc.collect()      # earlier handles are gone for good before the next call
                before = len(ref)
                pair = apply_both(dq, ref, op)
                got, want = pair[0], pair[1]
                if maxlen is not None and name in ('append', 'appendleft', 'extend', 'extendleft', 'iadd') and before == maxlen:
                    probes['maxlen_discard'] = 1
            if got != want:
                violations.append({'rule': 'C11/result', 'sig': name,
                                   'detail': 'call #%d %s: Deque %s, collections.deque %s' % (idx, json.dumps(op)[:100], got, want)})
                break
            try:
                now = [fp(x) for x in dq]
            except Exception as exc:  # noqa
                violations.append({'rule': 'C11/iteration-raises', 'sig': type(exc).__name__, 'detail': 'after call #%d %s' % (idx, json.dumps(op)[:100])})
                break
            exp = [fp(x) for x in ref]
            if now != exp or len(dq) != len(ref):
                violations.append({'rule': 'C11/contents', 'sig': name,
                                   'detail': 'after call #%d %s: Deque %s (len %d), collections.deque %s' % (
                                       idx, json.dumps(op)[:100], now[:8], len(dq), exp[:8])})
                break
        if not violations:
            problems, empties, info = audit(directory)
            if problems:
                violations.append({'rule': 'C11/audit', 'sig': ','.join(sorted({p[0] for p in problems})), 'detail': str(problems[:3])})
        dq.cache.close()
        for alias, sib in sorted(siblings.items()):
            if list(sib) != ['sibling of ' + alias] and not violations:
                violations.append({'rule': 'C11/named-objects-share-contents', 'sig': 'alias',
                                   'detail': 'the deque named %r holds %r after work on the deque named %r' % (alias, list(sib)[:5], subname)})
        if parent is not None:
            parent.close()
    finally:
        world.close()
    digest = hashlib.sha256(json.dumps(case, sort_keys=True).encode()).hexdigest()
    return {'violations': violations, 'digest': digest, 'steps': nops, 'switches': 0, 'fired': {}, 'probes': probes,
            'virtual_s': 0.0, 'nontrivial': nops >= 5, 'outcome': {'calls': nops}}


def make_dq_apply(maxlen):
    def dq_apply(state, op):
        items = list(state)
        name = op['op']
        if name == 'append':
            items.append(fp_spec(op['v']))
            if maxlen is not None and len(items) > maxlen:
                items.pop(0)
            return tuple(items), ('ok', 'None')
        if name == 'appendleft':
            items.insert(0, fp_spec(op['v']))
            if maxlen is not None and len(items) > maxlen:
                items.pop()
            return tuple(items), ('ok', 'None')
        if name in ('dpop', 'dpopleft', 'dpeek', 'dpeekleft'):
            if not items:
                return state, ('exc', 'IndexError')
            right = name in ('dpop', 'dpeek')
            v = items[-1] if right else items[0]
            if name in ('dpop', 'dpopleft'):
                if right:
                    items.pop()
                else:
                    items.pop(0)
            return tuple(items), ('ok', v)
        if name == 'dlist':
            return state, ('ok', fp(list(items)))
        raise ValueError(name)
    return dq_apply


def factory(dc, path, cfg):
    d = dc.Deque(directory=path, maxlen=cfg.get('maxlen'))
    d.cache.reset('disk_min_file_size', cfg.get('mfs', 0))
    return d


def run_conc(case):
    probes = {}
    maxlen = case['cfg'].get('maxlen')

    def inspect(world, main, targets, out):
        sim = world.sim
        fresh = world.dc.Deque(directory=main.directory, maxlen=maxlen)
        op = {'op': 'dlist'}
        rec = {'task': 'final', 'i': 0, 'op': op, 'inv': sim.stamp()}
        rec['res'] = run_op(fresh, op)
        rec['ret'] = sim.stamp()
        out['history'].append(rec)
        out['audit'] = audit(main.directory)
        out['check'] = check_messages(fresh.cache)
        fresh.cache.close()

    out = conc.run_and_inspect(case, inspect, factory=factory)
    violations = out['violations']
    base = {'digest': out.get('digest'), 'steps': out.get('steps', 0), 'switches': out.get('switches', 0),
            'fired': out.get('fired', {}), 'virtual_s': out.get('virtual_s', 0.0), 'picks': out.get('picks')}
    if conc.incident_violations(out, PROPERTY, violations):
        return dict(base, violations=violations, probes=out.get('probes', {}), nontrivial=True)
    for name, msg in conc.unexpected_exceptions(out):
        violations.append({'rule': 'C11/unexpected-exception', 'sig': msg.split(':')[0], 'detail': '%s: %s' % (name, msg)})
    hist = out['history']
    for h in hist:
        h['tolerate'] = False
        r = h['res']
        if r and r[0] == 'exc' and r[1] != 'IndexError':
            violations.append({'rule': 'C11/unexpected-exception', 'sig': r[1], 'detail': '%s %s -> %s' % (h['task'], json.dumps(h['op'])[:100], r)})
    try:
        ok, info = lin.check(hist, (), make_dq_apply(maxlen))
    except OverflowError:
        ok, info = True, {}
    if not ok:
        violations.append({'rule': 'C11/not-linearizable', 'sig': 'deque-history',
                           'detail': 'no order explains the results against deque(maxlen=%r); stuck at %s' % (maxlen, info.get('stuck_ops'))})
    problems, empties, info2 = out['audit']
    if problems:
        violations.append({'rule': 'C11/audit', 'sig': ','.join(sorted({p[0] for p in problems})), 'detail': str(problems[:3])})
    return dict(base, violations=violations, probes=dict(out['probes']), nontrivial=out['switches'] > 0, outcome={'ops': len(hist)})


def run_case(case):
    if case['cfg']['kind'] == 'conc':
        return run_conc(case)
    return run_seq(case)


def shrink_candidates(case):
    if case['cfg']['kind'] == 'seq':
        from .c03 import shrink_candidates as sc
        return sc(case)
    from ..runner import generic_candidates
    return generic_candidates(case)
