"""C03 - a single client sees an exact dictionary with expiry, tags and
statistics.  DESIGN.md section 9, C03."""
import hashlib
import json
import random

from .. import seqcache

PROPERTY = 'C03'
LEVEL = 'exploration'
QUICK_S = 30
THOROUGH_S = 420
BATCH = 4
RULE = ('one evaluation = one seeded single-client history (20-300 API calls incl. bulk steps crossing the 100-row page, '
        'clock advances, reopen) over an alias-prone key alphabet x eviction policy x cull_limit x statistics x tag index x '
        'storage threshold under the virtual clock; every call result, the physical row set after every call (lazy-cull '
        'legality) and the final contents are compared with ModelCache; non-trivial = the history performed at least 10 '
        'calls; distinct = distinct SHA-256 of (configuration, program)')
ASSUMPTIONS = ['clock frozen within one operation, advanced between operations (ties expire_time == now are reachable)',
               'size_limit is huge in this check: size eviction is C09']
PROBES = ('cull_expired', 'page_boundary_crossed', 'reopen')
TECHNIQUE = 'deterministic simulation (virtual clock, seeded file names) driving model-based differential checking against an executable reference dictionary'
LEVEL_TEXT = ('seeded exploration of call histories under a controlled clock; each history is checked call by call against an '
              'executable reference model, with lazy culling validated as legality of the observed removal set. The clock and '
              'file-name seams are simulated; concurrency is not involved (single client), so exploration of histories is the '
              'right level.')
LEVEL_NOTE = 'trusted: the reference model (validated on 3000 random histories against the pinned tree in the design phase), SQLite, tmpfs'


def gen_case(seed, tier):
    rng = random.Random('%s/c03' % seed)
    settings = seqcache.gen_settings(rng, 'c03')
    n_ops = rng.choice((20, 40, 80, 150)) if tier == 'quick' else rng.choice((20, 60, 150, 300))
    profile = rng.choice(('mixed', 'mixed', 'expiry', 'nottl'))
    prog = seqcache.gen_prog(rng, n_ops, profile, settings['disk_min_file_size'])
    if settings['cull_limit'] == 0:
        prog = seqcache.add_blocks(rng, prog)      # transact() blocks in which time passes (no lazy culling in these runs)
    return {'seed': seed, 'cfg': {'settings': settings, 'profile': profile}, 'prog': prog}


def run_case(case):
    violations, stats = seqcache.run_prog(case, PROPERTY)
    digest = hashlib.sha256(json.dumps([case['cfg'], case['prog']], sort_keys=True).encode()).hexdigest()
    return {'violations': violations, 'digest': digest, 'steps': stats['ops'], 'switches': 0, 'fired': {},
            'probes': stats['probes'], 'virtual_s': stats.get('virtual_s', 0.0), 'nontrivial': stats['ops'] >= 10,
            'outcome': {'ops': stats['ops']}}


def shrink_candidates(case):
    import copy
    prog = case['prog']
    n = len(prog)
    chunk = n // 2
    while chunk >= 1:
        for start in range(0, n, chunk):
            c = copy.deepcopy(case)
            del c['prog'][start:start + chunk]
            yield c
        chunk //= 2
