"""C03 - a single client sees an exact dictionary with expiry, tags and
statistics.  DESIGN.md section 9, C03."""
import hashlib
import json
import random

from .. import seqcache

PROPERTY = 'C03'
LEVEL = 'exploration'
QUICK_S = 30
THOROUGH_S = 420
BATCH = 4
RULE = ('one evaluation = one seeded single-client history (20-300 API calls incl. bulk steps crossing the 100-row page, '
        'clock advances, reopen) over an alias-prone key alphabet x eviction policy x cull_limit x statistics x tag index x '
        'storage threshold under the virtual clock; every call result, the physical row set after every call (lazy-cull '
        'legality) and the final contents are compared with ModelCache; non-trivial = the history performed at least 10 '
        'calls; distinct = distinct SHA-256 of (configuration, program)')
RULE += ' ' + "One history in eight runs in a directory whose name holds characters special to URIs, patterns or shells ('#', '?', '%41', blank, quote, ';', '&', 'file:' prefix, non-ASCII), next to a sibling cache named alike up to that character which must stay untouched; one seed in 97 probes a composite key written with one object in two places against an equal key of distinct objects."
RULE += ' ' + "Tags include tags that extend one another with ':' '/' '.' '%' '_'; expire / cull / evict are also called with retry=True."
RULE += ' ' + 'Text keys include one text in composed and decomposed Unicode spelling.'
RULE += ' ' + 'A quarter of the expire calls pass now= ahead of or behind the clock.'
ASSUMPTIONS = ['clock frozen within one operation, advanced between operations (ties expire_time == now are reachable)',
               'size_limit is huge in this check: size eviction is C09']
PROBES = ('cull_expired', 'page_boundary_crossed', 'reopen', 'identity_pairs', 'odd_directory_name')
TECHNIQUE = 'deterministic simulation (virtual clock, seeded file names) driving model-based differential checking against an executable reference dictionary'
LEVEL_TEXT = ('seeded exploration of call histories under a controlled clock; each history is checked call by call against an '
              'executable reference model, with lazy culling validated as legality of the observed removal set. The clock and '
              'file-name seams are simulated; concurrency is not involved (single client), so exploration of histories is the '
              'right level.')
LEVEL_NOTE = 'trusted: the reference model (validated on 3000 random histories against the pinned tree in the design phase), SQLite, tmpfs'


IDENT_MEMBERS = ['lang-en', {'b': '6b65792d31'}, {'t': [1, 'x']}, 'ab']


def gen_case(seed, tier):
    rng = random.Random('%s/c03' % seed)
    if seed % 97 == 13:
        # a composite key written with one object in two places, looked up with an equal key built from two equal objects
        # (and the other way round): to a dictionary they are one key
        return {'seed': seed, 'cfg': {'kind': 'identity', 'member': rng.choice(IDENT_MEMBERS), 'n': rng.choice((2, 2, 3)),
                                      'first': rng.choice(('same', 'dist'))}, 'prog': []}
    settings = seqcache.gen_settings(rng, 'c03')
    n_ops = rng.choice((20, 40, 80, 150)) if tier == 'quick' else rng.choice((20, 60, 150, 300))
    profile = rng.choice(('mixed', 'mixed', 'expiry', 'nottl'))
    prog = seqcache.gen_prog(rng, n_ops, profile, settings['disk_min_file_size'])
    if settings['cull_limit'] == 0:
        prog = seqcache.add_blocks(rng, prog)      # transact() blocks in which time passes (no lazy culling in these runs)
    cfg = {'settings': settings, 'profile': profile}
    if rng.random() < 0.12:
        cfg['dirname'] = rng.choice((['job#1', 'job#2'], ['a?mode=ro', 'a?mode=rw'], ['x%41', 'xA'], ['sp ace', 'sp'], ['caf\u00e9', 'cafe'],
                                     ['c;d', 'c'], ["it's", 'it'], ['a&b', 'a'], ['file:c', 'c']))
    return {'seed': seed, 'cfg': cfg, 'prog': prog}


def run_identity(case):
    from .. import vals
    from ..world import World
    cfg = case['cfg']
    violations = []
    world = World(case['seed'], clock={'mode': 'frozen'}, yield_clock=False)
    try:
        cache = world.dc.Cache(world.path('c'))
        first, second = cfg['first'], ('dist' if cfg['first'] == 'same' else 'same')
        k1 = vals.dec({first: [cfg['member'], cfg['n']]})
        k2 = vals.dec({second: [cfg['member'], cfg['n']]})
        ref = {}
        cache[k1] = 'v1'
        ref[k1] = 'v1'
        got = (k2 in cache, cache.get(k2), len(cache))
        want = (k2 in ref, ref.get(k2), len(ref))
        if got == want:
            cache[k2] = 'v2'
            ref[k2] = 'v2'
            got = (cache.get(k1), len(cache))
            want = (ref.get(k1), len(ref))
        if got != want:
            violations.append({'rule': 'C03/equal-keys-distinct-entries', 'sig': 'members-one-object-vs-equal-objects',
                               'detail': 'key %r written with %s members, looked up with %s members: cache %r, dictionary %r'
                                         % (k1, 'one object as all' if first == 'same' else 'equal but distinct objects as', 'distinct' if first == 'same' else 'one object as all', got, want)})
        cache.close()
    finally:
        world.close()
    digest = hashlib.sha256(json.dumps(case['cfg'], sort_keys=True).encode()).hexdigest()
    return {'violations': violations, 'digest': digest, 'steps': 4, 'switches': 0, 'fired': {}, 'probes': {'identity_pairs': 1},
            'virtual_s': 0.0, 'nontrivial': True, 'outcome': {'ops': 4}}


def run_case(case):
    if case['cfg'].get('kind') == 'identity':
        return run_identity(case)
    violations, stats = seqcache.run_prog(case, PROPERTY)
    digest = hashlib.sha256(json.dumps([case['cfg'], case['prog']], sort_keys=True).encode()).hexdigest()
    return {'violations': violations, 'digest': digest, 'steps': stats['ops'], 'switches': 0, 'fired': {},
            'probes': stats['probes'], 'virtual_s': stats.get('virtual_s', 0.0), 'nontrivial': stats['ops'] >= 10,
            'outcome': {'ops': stats['ops']}}


def shrink_candidates(case):
    import copy
    prog = case['prog']
    n = len(prog)
    chunk = n // 2
    while chunk >= 1:
        for start in range(0, n, chunk):
            c = copy.deepcopy(case)
            del c['prog'][start:start + chunk]
            yield c
        chunk //= 2
