"""C06 - transaction blocks are all-or-nothing, isolated, nestable and
thread-owned.  Two kinds of run: (A) concurrent clients with blocks, decided by
linearizability with each block as one multi-step operation; (B) a single
client whose block raises at a seeded point, decided by comparing the complete
contents and the directory before and after.  DESIGN.md section 9, C06."""
import copy
import json
import os
import random
import warnings

from .. import conc, kvmodel, lin, vals
from ..audit import audit, check_messages
from ..ops import fp, run_op
from . import c05

PROPERTY = 'C06'
LEVEL = 'exploration'
QUICK_S = 30
THOROUGH_S = 420
BATCH = 8
RULE = ('one evaluation = one seeded run: either 2-3 clients (shared object / own objects / processes) mixing plain operations '
        'and transaction blocks (1-5 reads/writes/removals over inline and file-backed values, nested 0-2 deep, ending normally '
        'or raising at a seeded point, optional virtual sleep inside the block) on Cache, Index or FanoutCache, interleaved by the '
        'seeded scheduler and checked for linearizability with a block as one atomic operation; or one client whose block over '
        'Cache/Deque/Index/FanoutCache raises at a seeded point, checked for unchanged contents (keys, values, expiry, tags, '
        'counts) and a clean directory; non-trivial = a context switch happened or a block aborted after at least one write; '
        'distinct = SHA-256 of the seam event log')
RULE += ' ' + 'A quarter of the abort cases first make a block entry give up while it waits for a foreign write lock.'
RULE += ' ' + 'One aborting block in eight forks a child process (which exits at once) from inside the block.'
RULE += ' ' + 'A fifth of the aborting blocks are written as a function decorated once with transact() that calls itself for every step.'
RULE += ' ' + 'Blocks of the concurrent Cache / Index cases hold the lock for up to 70 s (longer than the waiters wait); one seed in three runs with every warning turned into an error.'
ASSUMPTIONS = ['FanoutCache blocks are additionally checked against the weaker per-shard-atomic model to tell the known finding F8 from any other failure']
PROBES = ('blocks_committed', 'blocks_aborted', 'nested_block', 'abort_after_file_write', 'other_thread_timeout', 'lock_wait', 'entry_interrupted')
TECHNIQUE = 'deterministic simulation: seeded schedules + raise-point injection; linearizability with blocks as atomic multi-step operations; before/after state comparison for aborts'
LEVEL_TEXT = ('seeded exploration of block bodies x raise points x interleavings on real SQLite and files under the simulator; '
              'isolation/atomicity decided by a linearizability search, abort-restores-everything by full state and directory '
              'comparison. Schedules and raise points are the quantifiers, which the simulator controls and replays.')
LEVEL_NOTE = 'trusted: SQLite transaction semantics, simulator kernel; separate processes are simulated connection sets'

KEYS = ['a', 'b', {'t': [2, 'y']}]
COUNTERS = ['n']


def gen_body(rng, ci, j, keys, big_n, depth, target):
    n = rng.randint(1, 5 if depth == 0 else 3)
    body = []
    for b in range(n):
        r = rng.random()
        if depth < 2 and r < 0.15:
            sub = gen_body(rng, ci, j * 10 + b, keys, big_n, depth + 1, target)
            blk = {'op': 'txn', 'body': sub}
            if rng.random() < 0.4:
                blk['raise_at'] = rng.randint(0, len(sub)); blk['raise_kind'] = rng.choice(('exc', 'base'))
            body.append(blk)
            continue
        if r < 0.25 and depth == 0:
            # hold times are drawn relative to the waiters' lock timeout: every timed-out BEGIN of a retrying waiter costs
            # scheduler steps (10 ms timeout for FanoutCache), so long holds would hit the step cap without testing more
            body.append({'op': 'sleep', 'dt': rng.choice((0.001, 0.05, 0.5) if target == 'fanout' else (0.001, 0.1, 1.0, 20.0, 70.0))})
            continue
        op = gen_plain(rng, ci, j * 10 + b, keys, big_n, target, in_block=True)
        body.append(op)
    return body


def gen_plain(rng, ci, j, keys, big_n, target, in_block=False):
    k = rng.choice(keys)
    if not in_block and rng.random() < 0.06:
        return {'op': 'close'}     # a thread (or process) closing its connection never disturbs another client's block
    if rng.random() < 0.05:
        # a settings update, also in the middle of a block (the documented way to switch culling off for a bulk load)
        if rng.random() < 0.4:
            return {'op': 'reset', 'key': 'sqlite_cache_size', 'value': rng.choice((4096, 8192))}      # a pragma tuned at run time
        return {'op': 'reset', 'key': 'cull_limit', 'value': rng.choice((0, 10, 7))}
    if target == 'index':
        name = rng.choice(('setitem', 'setitem', 'getitem', 'delitem', 'ipop', 'setdefault', 'contains', 'len'))
        op = {'op': name}
        if name != 'len':
            op['k'] = k
        if name in ('setitem', 'setdefault'):
            op['v'] = c05.uniq_value(rng, ci, j, big_n)
        if name == 'ipop' and rng.random() < 0.5:
            op['default'] = 'dflt'
        return op
    if rng.random() < 0.2:
        op = {'op': rng.choice(('incr', 'decr')), 'k': 'n', 'delta': rng.choice((1, 3))}
        if target == 'fanout' or rng.random() < 0.5:
            op['retry'] = True
        return op
    name = rng.choice(('set', 'set', 'add', 'get', 'get', 'pop', 'delete', 'contains', 'touch', 'getitem', 'delitem'))
    if target == 'fanout' and name in ('len',):
        name = 'get'
    op = {'op': name, 'k': k}
    if name in ('set', 'add'):
        op['v'] = c05.uniq_value(rng, ci, j, big_n)
    if name in ('set', 'add', 'pop', 'delete', 'touch') and (target == 'fanout' or rng.random() < 0.5):
        op['retry'] = True
    if name in ('get', 'pop') and rng.random() < 0.3:
        op['default'] = 'dflt'
    return op


def gen_case(seed, tier):
    rng = random.Random('%s/c06' % seed)
    kind = 'abort' if rng.random() < 0.35 else 'conc'
    mfs = rng.choice((0, 8, 8, 2 ** 15))
    big_n = {0: 12, 8: 40, 2 ** 15: 2 ** 15 + 5}[mfs]
    keys = rng.sample(KEYS, rng.choice((1, 2, 3)))
    if kind == 'abort':
        target = rng.choice(('cache', 'cache', 'deque', 'index', 'fanout'))
        return gen_abort_case(rng, seed, target, mfs, big_n, keys)
    target = rng.choice(('cache', 'cache', 'cache', 'index', 'fanout', 'deque'))
    if target == 'deque':
        return gen_deque_case(rng, seed, mfs, big_n)
    nclients = rng.choice((2, 2, 3))
    topo = rng.choice(('shared', 'own', 'procs'))
    settings = {'disk_min_file_size': mfs}
    if target == 'cache':
        settings['eviction_policy'] = rng.choice(('least-recently-stored', 'least-recently-used', 'none'))
        settings['statistics'] = rng.choice((0, 0, 1))
    sched = rng.choice(({'kind': 'uniform'}, {'kind': 'sticky', 'p': rng.choice((0.5, 0.9))},
                        {'kind': 'pct', 'd': rng.choice((1, 2, 4)), 'horizon': rng.choice((100, 400))}))
    progs = {}
    for ci in range(nclients):
        prog = []
        for j in range(rng.randint(2, 5)):
            if rng.random() < 0.45:
                body = gen_body(rng, ci, j, keys, big_n, 0, target)
                blk = {'op': 'txn', 'body': body}
                if rng.random() < 0.35:
                    blk['raise_at'] = rng.randint(0, len(body)); blk['raise_kind'] = rng.choice(('exc', 'base'))
                if target == 'cache' and rng.random() < 0.6:
                    blk['retry'] = True
                prog.append(blk)
            else:
                prog.append(gen_plain(rng, ci, j, keys, big_n, target))
        progs['c%d' % ci] = prog
    if target == 'fanout' and rng.random() < 0.4:
        # a block writing keys of different shards next to a plain reader of the same keys
        ks = ['a', 'b', {'t': [2, 'y']}]
        rng.shuffle(ks)
        body = [{'op': 'set', 'k': k, 'v': c05.uniq_value(rng, 0, i, big_n), 'retry': True} for i, k in enumerate(ks)]
        progs = {'c0': [{'op': 'txn', 'body': body}],
                 'c1': [{'op': 'get', 'k': k, 'retry': True} for k in rng.sample(ks, 3)]}
        for i, k in enumerate(ks):
            if rng.random() < 0.8:
                progs['c0'].insert(0, {'op': 'set', 'k': k, 'v': c05.uniq_value(rng, 0, 70 + i, big_n), 'retry': True})
    cfg = {'target': target, 'topology': topo, 'settings': settings, 'sched': sched,
           'line_p': rng.choice((0.0, 0.0, 0.05)) if topo == 'shared' else 0.0,
           'dircollide': rng.random() < 0.5, 'post_stmt_yield': rng.random() < 0.3, 'yield_clock': rng.random() < 0.5,
           'clock': {'mode': 'frozen'}, 'timeout': rng.choice((60, 60, 0.05)) if target != 'fanout' else 0.010,
           'shards': rng.choice((2, 3)), 'kind': 'conc', 'step_cap': 200000}
    if target == 'fanout' and rng.random() < 0.5:
        # slow clients: a busy timeout may expire although somebody could still run (otherwise, in discrete-event time, the client
        # that got the first shard of a block always gets the others before anybody's attempt on a busy shard gives up)
        cfg['timer_race_p'] = rng.choice((0.1, 0.3))
        cfg['step_cap'] = 40000      # (a block that never gets its shards spins: found out sooner)
        cfg['line_p'] = 0.0
    return {'seed': seed, 'cfg': cfg, 'progs': progs, 'faults': []}


def gen_deque_case(rng, seed, mfs, big_n):
    """2-3 clients on one Deque mixing plain operations and Deque.transact blocks."""
    def dop(ci, j):
        name = rng.choice(('append', 'append', 'appendleft', 'dpop', 'dpopleft', 'dpeek'))
        op = {'op': name}
        if name.startswith('append'):
            op['v'] = c05.uniq_value(rng, ci, j, big_n)
        return op
    progs = {}
    for ci in range(rng.choice((2, 2, 3))):
        prog = []
        for j in range(rng.randint(2, 5)):
            if rng.random() < 0.5:
                body = [dop(ci, j * 10 + b) for b in range(rng.randint(1, 4))]
                if rng.random() < 0.2:
                    body.insert(rng.randrange(len(body) + 1), {'op': 'sleep', 'dt': rng.choice((0.001, 0.1, 1.0))})
                if rng.random() < 0.2:
                    inner = [dop(ci, j * 100 + b) for b in range(rng.randint(1, 2))]
                    blk_in = {'op': 'txn', 'body': inner}
                    if rng.random() < 0.4:
                        blk_in['raise_at'] = rng.randint(0, len(inner)); blk_in['raise_kind'] = rng.choice(('exc', 'base'))
                    body.append(blk_in)
                blk = {'op': 'txn', 'body': body}
                if rng.random() < 0.35:
                    blk['raise_at'] = rng.randint(0, len(body)); blk['raise_kind'] = rng.choice(('exc', 'base'))
                prog.append(blk)
            else:
                prog.append(dop(ci, j))
        progs['c%d' % ci] = prog
    topo = rng.choice(('shared', 'own', 'procs'))
    cfg = {'target': 'deque', 'kind': 'conc-deque', 'topology': topo, 'maxlen': rng.choice((None, None, 2, 3)), 'settings': {}, 'mfs': mfs,
           'sched': rng.choice(({'kind': 'uniform'}, {'kind': 'sticky', 'p': 0.8}, {'kind': 'pct', 'd': 2, 'horizon': 200})),
           'line_p': rng.choice((0.0, 0.05)) if topo == 'shared' else 0.0, 'dircollide': rng.random() < 0.5,
           'post_stmt_yield': rng.random() < 0.3, 'yield_clock': False, 'clock': {'mode': 'frozen'}, 'step_cap': 200000}
    return {'seed': seed, 'cfg': cfg, 'progs': progs, 'faults': []}


def run_conc_deque(case):
    from .c11 import make_dq_apply
    cfg = case['cfg']
    maxlen = cfg.get('maxlen')
    base_apply = make_dq_apply(maxlen)
    probes = {}

    def dq_apply(state, op, depth=0):
        if op['op'] == 'txn':
            return kvmodel._txn(state, op, depth, apply_fn=dq_apply)
        if op['op'] == 'sleep':
            return state, ('ok', 'None')
        return base_apply(state, op)

    def prepare(world, main):
        main.cache.reset('disk_min_file_size', cfg.get('mfs', 0))

    def inspect(world, main, targets, out):
        sim = world.sim
        fresh = world.dc.Deque(directory=main.directory, maxlen=maxlen)
        op = {'op': 'dlist'}
        rec = {'task': 'final', 'i': 0, 'op': op, 'inv': sim.stamp()}
        rec['res'] = run_op(fresh, op)
        rec['ret'] = sim.stamp()
        out['history'].append(rec)
        out['audits'] = [audit(main.directory)]
        out['checks'] = [check_messages(fresh.cache)]
        fresh.cache.close()

    out = conc.run_and_inspect(case, inspect, prepare=prepare)
    violations = out['violations']
    base = {'digest': out.get('digest'), 'steps': out.get('steps', 0), 'switches': out.get('switches', 0),
            'fired': out.get('fired', {}), 'virtual_s': out.get('virtual_s', 0.0), 'picks': out.get('picks')}
    if conc.incident_violations(out, PROPERTY, violations):
        return dict(base, violations=violations, probes=out.get('probes', {}), nontrivial=True)
    for name, msg in conc.unexpected_exceptions(out):
        violations.append({'rule': 'C06/unexpected-exception', 'sig': msg.split(':')[0], 'detail': '%s: %s' % (name, msg)})
    hist = out['history']
    for h in hist:
        h['tolerate'] = False
        r = h['res']
        if r and r[0] == 'exc' and r[1] != 'IndexError':
            violations.append({'rule': 'C06/unexpected-exception', 'sig': r[1], 'detail': '%s %s -> %s' % (h['task'], json.dumps(h['op'])[:120], r)})
        if r and r[0] == 'ok' and isinstance(r[1], str):
            if r[1].startswith('commit:'):
                probes['blocks_committed'] = probes.get('blocks_committed', 0) + 1
            elif r[1].startswith('abort:'):
                probes['blocks_aborted'] = probes.get('blocks_aborted', 0) + 1
    try:
        ok, info = lin.check(hist, (), dq_apply)
    except OverflowError:
        ok, info = True, {}
    if not ok:
        violations.append({'rule': 'C06/not-linearizable', 'sig': 'deque-history',
                           'detail': 'no order with Deque.transact blocks as atomic operations explains the results (maxlen %r); stuck at %s' % (maxlen, info.get('stuck_ops'))})
    for problems, empties, info2 in out['audits']:
        if problems:
            violations.append({'rule': 'C06/audit', 'sig': ','.join(sorted({p[0] for p in problems})), 'detail': str(problems[:4])})
    pr = dict(out['probes'])
    for k, v in probes.items():
        pr[k] = pr.get(k, 0) + v
    pr['deque_conc_runs'] = 1
    return dict(base, violations=violations, probes=pr, nontrivial=out['switches'] > 0, outcome={'ops': len(hist)})


def gen_abort_case(rng, seed, target, mfs, big_n, keys):
    pre = []
    for j in range(rng.randint(1, 5)):
        if target == 'deque':
            pre.append({'op': rng.choice(('append', 'appendleft')), 'v': c05.uniq_value(rng, 9, j, big_n)})
        else:
            op = {'op': 'setitem' if target == 'index' else 'set', 'k': rng.choice(keys), 'v': c05.uniq_value(rng, 9, j, big_n)}
            if target in ('cache', 'fanout') and rng.random() < 0.4:
                op['expire'] = rng.choice((5, 60))
                op['tag'] = rng.choice(('t1', 't2'))
            pre.append(op)
    if target == 'deque':
        body = []
        for b in range(rng.randint(1, 5)):
            name = rng.choice(('append', 'appendleft', 'dpop', 'dpopleft', 'dpeek'))
            op = {'op': name}
            if name.startswith('append'):
                op['v'] = c05.uniq_value(rng, 0, b, big_n)
            body.append(op)
    else:
        body = gen_body(rng, 0, 0, keys, big_n, 0, target)
        body = [b for b in body if b['op'] != 'sleep']
        if target in ('cache', 'fanout') and rng.random() < 0.5:
            body.append({'op': 'push', 'v': c05.uniq_value(rng, 0, 99, big_n), 'prefix': 'q'} if target == 'cache'
                        else {'op': 'set', 'k': 'zz', 'v': c05.uniq_value(rng, 0, 99, big_n)})
        if target == 'cache' and rng.random() < 0.3:
            body.append({'op': 'pull', 'prefix': 'q'})
        if target in ('cache', 'fanout') and rng.random() < 0.3:
            body.insert(rng.randrange(len(body) + 1), rng.choice(({'op': 'clear'}, {'op': 'evict', 'tag': 't1'}, {'op': 'expire'},
                                                                    {'op': 'cull'}, {'op': 'touch', 'k': rng.choice(keys), 'expire': 7})))
    if rng.random() < 0.12:
        # the thread that owns the block forks a child in the middle of it (a worker started from inside the block); the
        # child exits at once and never touches the cache
        body.insert(rng.randint(0, len(body)), {'op': 'realfork'})
    blk = {'op': 'txn', 'body': body}
    if rng.random() < 0.2 and len(body) >= 2:
        blk['style'] = 'decorated'
    if rng.random() < 0.8:
        blk['raise_at'] = rng.randint(0, len(body)); blk['raise_kind'] = rng.choice(('exc', 'base'))
    cfg = {'target': target, 'settings': {'disk_min_file_size': mfs}, 'kind': 'abort', 'shards': rng.choice((2, 3)),
           'maxlen': rng.choice((None, None, 3)), 'interrupted_entry': rng.random() < 0.25}
    return {'seed': seed, 'cfg': cfg, 'progs': {'c0': pre + [blk]}, 'faults': []}


# ---------------------------------------------------------------------------

def snapshot(dc, target, kind, now_keys=None):
    """Complete observable contents of the target."""
    if kind == 'deque':
        return {'list': [fp(x) for x in target], 'len': len(target)}
    cache = target.cache if kind == 'index' else target
    items = []
    for k in list(cache):
        got = cache.get(k, default='<absent>', expire_time=True, tag=True)
        items.append((fp(k), fp(got)))
    if kind == 'fanout':
        items.sort()
    return {'items': items, 'len': len(cache)}


def run_abort_case(case):
    from ..world import World
    cfg = case['cfg']
    violations = []
    probes = {}
    world = World(case['seed'], clock={'mode': 'frozen'}, yield_clock=False)
    try:
        dc = world.dc
        kind = cfg['target']
        target = conc.default_factory(dc, world.path('c'), cfg)
        prog = case['progs']['c0']
        for op in prog[:-1]:
            run_op(target, op)
        blk = prog[-1]
        if cfg.get('interrupted_entry'):
            # an earlier block of this thread never got in: while it waited for the write lock (held by another connection)
            # the wait was cut short by an exception from outside (a job timeout, Ctrl-C).  Blocks entered later are
            # transactions like any other.
            import sqlite3
            from .. import seams
            sim = world.sim
            d = directories(target, kind)[-1]
            holder = sqlite3.connect(os.path.join(d, 'cache.db'), timeout=0, isolation_level=None)
            holder.execute('BEGIN IMMEDIATE')
            saved = sim.hcap
            sim.hcap = sim.hsteps + 300
            try:
                with target.transact(retry=True) if kind in ('cache', 'fanout') else target.transact():
                    violations.append({'rule': 'C06/block-entered-under-foreign-lock', 'sig': kind, 'detail': ''})
            except seams.NoProgress:
                probes['entry_interrupted'] = 1
            finally:
                sim.hcap = saved
                holder.execute('ROLLBACK')
                holder.close()
        before = snapshot(dc, target, kind)
        dirs = directories(target, kind)
        before_audit = [audit(d) for d in dirs]
        res = run_op(target, blk)
        after = snapshot(dc, target, kind)
        aborted = res[0] == 'ok' and res[1].startswith('abort:')
        wrote = _writes_before_abort(blk)
        if aborted:
            probes['blocks_aborted'] = 1
            if wrote:
                probes['abort_after_write'] = 1
                if '"big"' in json.dumps([b for b in (blk['body'] if blk.get('raise_at') is None else blk['body'][:blk['raise_at']])]):
                    probes['abort_after_file_write'] = 1
            if after != before:
                violations.append({'rule': 'C06/abort-restores-contents', 'sig': kind,
                                   'detail': 'block %s aborted; before %s after %s' % (
                                       json.dumps(blk)[:200], json.dumps(before)[:200], json.dumps(after)[:200])})
        elif res[0] == 'ok':
            probes['blocks_committed'] = 1
        else:
            violations.append({'rule': 'C06/unexpected-exception', 'sig': res[1], 'detail': '%s -> %s' % (json.dumps(blk)[:200], res)})
        for d in dirs:
            problems, empties, info = audit(d)
            if problems:
                violations.append({'rule': 'C06/audit-after-block', 'sig': ','.join(sorted({p[0] for p in problems})),
                                   'detail': 'aborted=%s %s' % (aborted, problems[:4])})
        for c in caches_of(target, kind):
            msgs = [m for m in check_messages(c) if not m.startswith('empty directory')]
            if msgs:
                violations.append({'rule': 'C06/check-after-block', 'sig': ','.join(sorted({m.split(':')[0] for m in msgs})),
                                   'detail': str(msgs[:3])})
        # every remaining value must be readable (file present)
        digest = world.sim.digest()
        import hashlib
        digest = hashlib.sha256(json.dumps(case, sort_keys=True).encode()).hexdigest()
        for c in caches_of(target, kind):
            c.close()
    finally:
        world.close()
    return {'violations': violations, 'digest': digest, 'steps': len(case['progs']['c0']), 'switches': 0, 'fired': {},
            'probes': probes, 'virtual_s': 0.0, 'nontrivial': bool(probes.get('abort_after_write')) or bool(probes.get('blocks_committed')),
            'outcome': {'block': res}}


def _writes_before_abort(blk):
    ra = blk.get('raise_at')
    body = blk['body'] if ra is None else blk['body'][:ra]
    for sub in body:
        if sub['op'] == 'txn':
            if _writes_before_abort(dict(sub, raise_at=sub.get('raise_at'))):
                return True
        elif sub['op'] not in ('get', 'getitem', 'contains', 'len', 'dpeek', 'sleep'):
            return True
    return False


def caches_of(target, kind):
    if kind == 'fanout':
        return list(target._shards)
    if kind in ('deque', 'index'):
        return [target.cache]
    return [target]


def directories(target, kind):
    return [c.directory for c in caches_of(target, kind)]


# ---------------------------------------------------------------------------

def annotate_fanout(main, history):
    """Record the shard of every keyed op inside fanout blocks."""
    def shard(k):
        return main._hash(vals.dec(k)) % main._count
    for h in history:
        if h['op'].get('op') == 'txn':
            h['shards'] = _body_shards(h['op']['body'], shard)


def _body_shards(body, shard):
    out = []
    for sub in body:
        if sub['op'] == 'txn':
            out.append(_body_shards(sub['body'], shard))
        elif 'k' in sub:
            out.append(shard(sub['k']))
        else:
            out.append(None)
    return out


def _flatten(body, shards, results):
    """Executed leaf operations of a (possibly nested) block with their shard and result.  Inner blocks only
    contribute what they executed: effects of an inner block persist in the outer transaction even if it raised."""
    out = []
    for sub, sh, r in zip(body, shards, results):
        if sub['op'] == 'txn':
            if not (isinstance(r, (list, tuple)) and r[0] == 'ok'):
                return None
            inner = json.loads(r[1].split(':', 1)[1])
            flat = _flatten(sub['body'], sh, inner)
            if flat is None:
                return None
            out.extend(flat)
        elif sub['op'] != 'sleep':
            out.append((sub, sh, tuple(r) if isinstance(r, list) else r))
    return out


def split_per_shard(history):
    """Weaker model for FanoutCache blocks: one atomic sub-block per shard
    (what a shard-by-shard commit provides).  Committed blocks (nested ones
    flattened) are split; others are kept whole."""
    out = []
    for h in history:
        op = h['op']
        if op.get('op') != 'txn' or 'shards' not in h or h['res'] is None or h['res'][0] != 'ok' \
                or not h['res'][1].startswith('commit:'):
            out.append(h)
            continue
        results = json.loads(h['res'][1][7:])
        flat = _flatten(op['body'], h['shards'], results)
        if flat is None:
            out.append(h)
            continue
        groups = {}
        for sub, sh, r in flat:
            groups.setdefault(sh, []).append((sub, r))
        if len(groups) <= 1:
            out.append(h)
            continue
        for sh, pairs in sorted(groups.items(), key=lambda kv: repr(kv[0])):
            piece = dict(h)
            piece['op'] = {'op': 'txn', 'body': [p[0] for p in pairs]}
            piece['res'] = ('ok', 'commit:' + json.dumps([p[1] for p in pairs]))
            out.append(piece)
    return out


def model_apply(state, op):
    return kvmodel.apply(state, op)


def run_case(case):
    if case['seed'] % 3 == 1:
        # a deployment that turns warnings into errors (python -W error, pytest's filterwarnings = error): a block that
        # completes completes there as well, however long it took
        with warnings.catch_warnings():
            warnings.simplefilter('error')
            return _run_case(case)
    return _run_case(case)


def _run_case(case):
    if case['cfg'].get('kind') == 'abort':
        return run_abort_case(case)
    if case['cfg'].get('kind') == 'conc-deque':
        return run_conc_deque(case)
    probes = {}
    target_kind = case['cfg']['target']

    def inspect(world, main, targets, out):
        dc = world.dc
        hist = out['history']
        if target_kind == 'fanout':
            annotate_fanout(main, hist)
        keys = []
        for h in hist:
            for k in _keys_in(h['op']):
                if k not in keys:
                    keys.append(k)
        sim = world.sim
        obs = conc.default_factory(dc, world.path('c'), case['cfg'])
        for k in keys:
            op = {'op': 'get', 'k': k, 'default': 'absent'} if target_kind != 'index' else {'op': 'ipop', 'k': k, 'default': 'absent'}
            if target_kind == 'index':
                # non-destructive read for Index: lookup via the underlying cache
                op = {'op': 'get', 'k': k, 'default': 'absent'}
                tgt = obs.cache
            else:
                tgt = obs
            if target_kind == 'fanout':
                op['retry'] = True
            rec = {'task': 'final', 'i': 0, 'op': op, 'inv': sim.stamp()}
            rec['res'] = run_op(tgt, op)
            rec['ret'] = sim.stamp()
            hist.append(rec)
        out['audits'] = [audit(d) for d in directories(obs, target_kind)]
        out['checks'] = [check_messages(c) for c in caches_of(obs, target_kind)]
        for c in caches_of(obs, target_kind):
            c.close()

    out = conc.run_and_inspect(case, inspect)
    violations = out['violations']
    base = {'digest': out.get('digest'), 'steps': out.get('steps', 0), 'switches': out.get('switches', 0),
            'fired': out.get('fired', {}), 'virtual_s': out.get('virtual_s', 0.0), 'picks': out.get('picks')}
    if conc.incident_violations(out, PROPERTY, violations):
        return dict(base, violations=violations, probes=out.get('probes', {}), nontrivial=True)
    for name, msg in conc.unexpected_exceptions(out):
        violations.append({'rule': 'C06/unexpected-exception', 'sig': msg.split(':')[0], 'detail': '%s: %s' % (name, msg)})
    for rule, msg in out['seam_violations']:
        violations.append({'rule': 'C06/' + rule, 'sig': 'seam', 'detail': msg})
    hist = out['history']
    for h in hist:
        r = h['res']
        if r and r[0] == 'exc' and h['op'].get('op') == 'reset' and r[1] == 'OperationalError':
            # a settings update retries for 60 s and then gives up with the database error: what happens behind a block that
            # sleeps longer than that; like a Timeout it had no effect
            r = h['res'] = ('exc', 'Timeout')
        if r and r[0] == 'exc' and r[1] not in ('KeyError', 'Timeout', 'TypeError'):
            violations.append({'rule': 'C06/unexpected-exception', 'sig': r[1], 'detail': '%s op %s -> %s' % (h['task'], json.dumps(h['op'])[:150], r)})
        if r and r[0] == 'exc' and r[1] == 'Timeout':
            probes['other_thread_timeout'] = probes.get('other_thread_timeout', 0) + 1
        if r and r[0] == 'ok' and isinstance(r[1], str):
            if r[1].startswith('commit:'):
                probes['blocks_committed'] = probes.get('blocks_committed', 0) + 1
                if '"txn"' in json.dumps(h['op']['body']):
                    probes['nested_block'] = probes.get('nested_block', 0) + 1
            elif r[1].startswith('abort:'):
                probes['blocks_aborted'] = probes.get('blocks_aborted', 0) + 1
    ops = [h for h in hist if not (h['res'] and h['res'][0] == 'exc' and h['res'][1] == 'Timeout')]
    # Timeout inside a block body leaves the block's other effects in place: keep such blocks out of the
    # search only if the Timeout escaped the block (res exc); inner Timeouts are results the model cannot produce.
    ops = [h for h in ops if not (h['op'].get('op') == 'txn' and h['res'] and '"Timeout"' in str(h['res'][1]))]
    lin.mark_tolerated_misses(ops, miss=kvmodel.is_miss)
    if target_kind == 'index':
        for h in ops:
            h['tolerate'] = False      # C12: no miss tolerance for Index
    if target_kind == 'fanout':
        for h in ops:
            if 'retry' not in h['op'] and h['op'].get('op') in ('set', 'add', 'touch', 'delete', 'incr', 'decr', 'pop', 'get'):
                h['tolerate'] = True   # sharded caches report a lock timeout through the return value (C14)
    ops = lin.expand_setdefault(ops)
    try:
        ok, info = lin.check(ops, frozenset(), model_apply)
    except OverflowError:
        ok, info = True, {'nodes': 0}
        probes['lin_overflow'] = 1
    if not ok:
        sig = 'history'
        if target_kind == 'fanout':
            try:
                ok2, _ = lin.check(split_per_shard(ops), frozenset(), model_apply)
            except OverflowError:
                ok2 = False
            if ok2:
                sig = 'fanout-block-visible-shard-by-shard'
        violations.append({'rule': 'C06/not-linearizable', 'sig': sig,
                           'detail': 'no order with blocks as atomic operations explains the results; stuck at %s' % (info.get('stuck_ops'),)})
    for problems, empties, info2 in out['audits']:
        if problems:
            violations.append({'rule': 'C06/audit', 'sig': ','.join(sorted({p[0] for p in problems})), 'detail': str(problems[:4])})
    for msgs in out['checks']:
        bad = [m for m in msgs if not m.startswith('empty directory')]
        if bad:
            violations.append({'rule': 'C06/check', 'sig': ','.join(sorted({m.split(':')[0] for m in bad})), 'detail': str(bad[:3])})
    pr = dict(out['probes'])
    for k, v in probes.items():
        pr[k] = pr.get(k, 0) + v
    return dict(base, violations=violations, probes=pr, nontrivial=out['switches'] > 0,
                outcome={'ops': len(hist)})


def _keys_in(op):
    if op.get('op') == 'txn':
        for sub in op['body']:
            for k in _keys_in(sub):
                yield k
    elif 'k' in op:
        yield op['k']
