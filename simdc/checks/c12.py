"""C12 - Index is a persistent insertion-ordered dictionary.  Single-client
differential runs against collections.OrderedDict (every mapping method,
lifecycle events, Index from FanoutCache.index / DjangoCache.index) and 2-3
concurrent clients on shared keys checked for linearizability against an
ordered-dictionary model WITHOUT the miss tolerance C05 grants to Cache.
DESIGN.md section 9, C12."""
import collections
import os
import hashlib
import json
import pickle
import random

from .. import conc, kvmodel, lin, vals
from ..audit import audit, check_messages
from ..ops import fp, fp_spec, run_op
from ..world import World
from . import c05

PROPERTY = 'C12'
LEVEL = 'exploration'
QUICK_S = 30
THOROUGH_S = 420
BATCH = 6
RULE = ('one evaluation = one seeded run: a single-client sequence of 10-120 mapping calls (assignment, lookup, deletion, pop, '
        'popitem from either end, setdefault, update, keys/values/items, equality with ordered and unordered mappings, iteration '
        'both ways, clear, peekitem) over native and composite keys, inline and file-backed values, with reopen / unpickle / restart '
        'events, compared call by call (result, exception class, list(items)) with OrderedDict; or 2-3 concurrent clients doing '
        'lookups, replacements, setdefault, popitem, deletions on shared keys under the seeded scheduler, checked for linearizability '
        'against an ordered-dictionary model with no tolerated miss; non-trivial = at least 5 calls / a context switch; distinct = '
        'SHA-256 of program or event log')
RULE += ' ' + "Sequences on an Index obtained from a FanoutCache / DjangoCache also contain the parent's own clear / expire / cull / evict / set / delete calls."
RULE += ' ' + "The parent's calls include looking the same name up again; in 40 % of the runs with a parent the name holds ':' '*' '?' '|' '/' and sibling objects under colliding spellings hold marker items."
RULE += ' ' + "A pass over items() / values() is interrupted by another handle replacing the last key's value with one kept in a file."
RULE += ' ' + 'update() sources include an object with keys() and __getitem__ that is no Mapping.'
RULE += ' ' + 'Views of keys / values / items are kept across later insertions and removals.'
ASSUMPTIONS = ['Index.setdefault is checked as the documented get/add loop (insert attempts + final lookup), not as one indivisible step',
               'key alphabet avoids pairs that Python treats as equal but diskcache documents as distinct (True/1, 2**63/2.0**63)']
PROBES = ('fifo_churn', 'own_temporary_directory', 'lifecycle', 'from_fanout', 'from_django', 'parent_calls', 'named_with_special_characters', 'pass_overlaps_replacement', 'view_kept_across_changes', 'lock_wait', 'file_backed_replace')
TECHNIQUE = 'deterministic simulation + differential testing against collections.OrderedDict; seeded schedules + linearizability (no miss tolerance) for concurrent use'
LEVEL_TEXT = ('seeded exploration of mapping-call sequences with lifecycle events against OrderedDict, and of 2-3 client '
              'interleavings decided by a linearizability search in which a lookup of a continuously present key may never miss.')
LEVEL_NOTE = 'trusted: OrderedDict as the reference, SQLite, simulator kernel'

KEYS = ['a', 'b', {'b': '61'}, 1, {'f': '1.0'}, {'f': '2.5'}, 0, {'f': '-0.0'}, {'t': [1, 'x']}, None, '', {'i': str(2 ** 63)}]
SMALL = [0, 1, 'v', {'b': '00ff'}, None, {'t': [1, 2]}, {'l': [1]}, {'f': '1.5'}]


def gen_case(seed, tier):
    rng = random.Random('%s/c12' % seed)
    conc_run = rng.random() < 0.35
    mfs = rng.choice((0, 8, 8, 2 ** 15))
    big_n = {0: 12, 8: 40, 2 ** 15: 2 ** 15 + 5}[mfs]
    if conc_run:
        keys = rng.sample(['a', 'b', {'t': [1, 'x']}], rng.choice((1, 2)))
        progs = {}
        for ci in range(rng.choice((2, 3))):
            prog = []
            for j in range(rng.randint(2, 6)):
                name = rng.choice(('setitem', 'setitem', 'getitem', 'getitem', 'getitem', 'setdefault', 'popitem', 'delitem', 'contains', 'ipop'))
                op = {'op': name}
                if name != 'popitem':
                    op['k'] = rng.choice(keys)
                else:
                    op['last'] = rng.random() < 0.5
                if name in ('setitem', 'setdefault'):
                    op['v'] = c05.uniq_value(rng, ci, j, big_n) if rng.random() < 0.3 else {'big': ['bytes', big_n, 'c%d-%d' % (ci, j)]}
                if name == 'ipop' and rng.random() < 0.5:
                    op['default'] = 'dflt'
                prog.append(op)
            progs['c%d' % ci] = prog
        no_delete = rng.random() < 0.4
        if no_delete:
            for prog in progs.values():
                for op in prog:
                    if op['op'] in ('popitem', 'delitem', 'ipop'):
                        op['op'] = 'getitem'
                        op.setdefault('k', keys[0])
                        op.pop('last', None)
                        op.pop('default', None)
        cfg = {'kind': 'conc', 'target': 'index', 'mfs': mfs, 'settings': {},
               'topology': rng.choice(('shared', 'own', 'procs')),
               'sched': rng.choice(({'kind': 'uniform'}, {'kind': 'sticky', 'p': 0.7}, {'kind': 'pct', 'd': 2, 'horizon': 150})),
               'clock': {'mode': 'frozen'}, 'yield_clock': False, 'dircollide': rng.random() < 0.5,
               'line_p': 0.0, 'post_stmt_yield': rng.random() < 0.5, 'no_delete': no_delete, 'prefill': rng.random() < 0.7}
        return {'seed': seed, 'cfg': cfg, 'progs': progs, 'faults': []}
    n = rng.choice((10, 30, 60)) if tier == 'quick' else rng.choice((20, 60, 120))
    keys = rng.sample(KEYS, rng.randint(2, 7))
    prog = []
    for i in range(n):
        r = rng.random()
        k = rng.choice(keys)
        v = rng.choice(SMALL) if rng.random() < 0.7 else {'big': [rng.choice(('bytes', 'str', 'pickle')), big_n, 'v%d' % i]}
        if r < 0.22:
            op = {'op': 'setitem', 'k': k, 'v': v}
        elif r < 0.36:
            op = {'op': rng.choice(('getitem', 'get', 'contains')), 'k': k}
        elif r < 0.44:
            op = {'op': 'delitem', 'k': k}
        elif r < 0.52:
            op = {'op': 'pop', 'k': k}
            if rng.random() < 0.5:
                op['default'] = 'dflt'
        elif r < 0.60:
            op = {'op': 'popitem', 'last': rng.random() < 0.5}
        elif r < 0.67:
            op = {'op': 'setdefault', 'k': k, 'v': v}
        elif r < 0.72:
            op = {'op': 'update', 'items': [[rng.choice(keys), rng.choice(SMALL)] for _ in range(rng.randint(0, 3))],
                  # what is handed over: a list of pairs, a generator, a generator that fails after its pairs, a dict, keywords
                  'src': rng.choice(('list', 'list', 'gen', 'raise', 'dict', 'badpair', 'keysobj'))}
        elif r < 0.80:
            op = {'op': rng.choice(('keys', 'values', 'items', 'iter', 'reversed', 'len'))}
        elif r < 0.86:
            op = {'op': 'eq', 'other': rng.choice(('same-ordered', 'same-dict', 'permuted-ordered', 'permuted-dict', 'changed', 'shorter',
                                                    'longer-ordered', 'longer-dict', 'same-index', 'permuted-index', 'changed-index',
                                                    'shorter-index', 'longer-index', 'changed-dict'))}
        elif r < 0.88:
            op = {'op': 'clear'}
        elif r < 0.905:
            op = {'op': 'peekitem', 'last': rng.random() < 0.5}
        elif r < 0.92:
            op = {'op': 'view_kept', 'what': rng.choice(('keys', 'keys', 'values', 'items'))}
        elif r < 0.925:
            op = {'op': 'iter_replace', 'what': rng.choice(('items', 'values'))}
        elif r < 0.935:
            # first-in-first-out churn: many insertions, each followed by the removal of the oldest item - the index stays small
            # while the positions of its rows move far beyond one page of whatever the iteration pages by
            op = {'op': 'churn', 'n': rng.choice((60, 130, 260))}
        else:
            op = {'op': rng.choice(('reopen', 'pickle', 'restart'))}
        prog.append(op)
    cfg = {'kind': 'seq', 'mfs': mfs, 'origin': rng.choice(('direct', 'direct', 'fanout', 'django', 'temp')),
           # the parent an Index is obtained from may have been built with its own eviction settings: an Index never evicts
           'parent_opts': rng.choice(({}, {}, {'eviction_policy': 'least-recently-used', 'size_limit': 2 ** 16, 'cull_limit': 10},
                                      {'eviction_policy': 'least-frequently-used', 'cull_limit': 2, 'statistics': 1, 'tag_index': 1}))}
    if cfg['origin'] in ('fanout', 'django') and rng.random() < 0.4:
        cfg['subname'] = rng.choice(('jobs:eu', 'q*1', 'a?b', 'x|y', 'ns:a/b:c'))
    if cfg['origin'] in ('fanout', 'django') and rng.random() < 0.6:
        # the parent goes about its own business meanwhile: its keys, its housekeeping - none of it concerns what it handed out
        for _ in range(rng.randint(1, 4)):
            prog.insert(rng.randint(0, len(prog)), {'op': 'parent', 'call': rng.choice(('clear', 'clear', 'expire', 'cull', 'evict', 'set', 'delete', 'lookup', 'lookup'))})
    return {'seed': seed, 'cfg': cfg, 'prog': prog}


def parent_call(parent, call, name='ix'):
    if call == 'set':
        if type(parent).__name__ == 'DjangoCache':
            parent.set('pk', 'parent value', timeout=30, tag='t')
        else:
            parent.set('pk', 'parent value', expire=30, tag='t')
    elif call == 'delete':
        parent.delete('pk')
    elif call == 'evict':
        parent.evict('t')
    elif call == 'lookup':
        # another part of the program looks the same named object up again (for a Deque: with another maxlen in mind)
        parent.index(name)
    else:
        getattr(parent, call)()


def _norm(fn):
    try:
        return ('ok', fp(fn()))
    except Exception as exc:  # noqa
        return ('exc', type(exc).__name__)


class HKey:
    """Key wrapper giving OrderedDict the documented diskcache key identity."""
    __slots__ = ('key', 'ident')

    def __init__(self, key):
        self.key = key
        self.ident = vals.key_ident(key)

    def __hash__(self):
        return hash(repr(self.ident))

    def __eq__(self, other):
        return isinstance(other, HKey) and self.ident == other.ident


def _other(ref, how, rng_seed, world=None):
    """The comparand in two forms: for the Index under test and for the reference OrderedDict.  '-index' comparands are a
    second Index (an ordered mapping: Index == Index is OrderedDict == OrderedDict)."""
    items = [(k.key, v) for k, v in ref.items()]
    if how.startswith('permuted'):
        items = items[1:] + items[:1]
    if how.startswith('changed') and items:
        items[-1] = (items[-1][0], 'changed!')
    if how.startswith('shorter'):
        items = items[:-1]
    if how.startswith('longer'):
        items = items + [('one-more', 1)]
    wrapped = collections.OrderedDict((HKey(k), v) for k, v in items)
    if how.endswith('index'):
        n = len(os.listdir(world.root))
        return world.dc.Index(world.path('cmp%d' % n), items), wrapped
    if how.endswith('ordered') or how in ('changed', 'shorter'):
        return collections.OrderedDict(items), wrapped
    return dict(items), dict(wrapped)


def apply_both(ix, ref, op, world=None):
    name = op['op']
    if name == 'setitem':
        k, v = vals.dec(op['k']), vals.dec(op['v'])
        return _norm(lambda: ix.__setitem__(k, v)), _norm(lambda: ref.__setitem__(HKey(k), v))
    if name == 'getitem':
        k = vals.dec(op['k'])
        return _norm(lambda: ix[k]), _norm(lambda: ref[HKey(k)])
    if name == 'get':
        k = vals.dec(op['k'])
        return _norm(lambda: ix.get(k, 'dflt')), _norm(lambda: ref.get(HKey(k), 'dflt'))
    if name == 'contains':
        k = vals.dec(op['k'])
        return _norm(lambda: k in ix), _norm(lambda: HKey(k) in ref)
    if name == 'delitem':
        k = vals.dec(op['k'])
        return _norm(lambda: ix.__delitem__(k)), _norm(lambda: ref.__delitem__(HKey(k)))
    if name == 'pop':
        k = vals.dec(op['k'])
        if 'default' in op:
            return _norm(lambda: ix.pop(k, op['default'])), _norm(lambda: ref.pop(HKey(k), op['default']))
        return _norm(lambda: ix.pop(k)), _norm(lambda: ref.pop(HKey(k)))
    if name == 'popitem':
        def b():
            k, v = ref.popitem(last=op['last'])
            return (k.key, v)
        return _norm(lambda: ix.popitem(last=op['last'])), _norm(b)
    if name == 'peekitem':
        def b():
            if not ref:
                raise KeyError('empty')
            k = next(reversed(ref)) if op['last'] else next(iter(ref))
            return (k.key, ref[k])
        return _norm(lambda: ix.peekitem(last=op['last'])), _norm(b)
    if name == 'setdefault':
        k, v = vals.dec(op['k']), vals.dec(op['v'])
        return _norm(lambda: ix.setdefault(k, v)), _norm(lambda: ref.setdefault(HKey(k), v))
    if name == 'update':
        items = [(vals.dec(a), vals.dec(b)) for a, b in op['items']]
        src = op.get('src', 'list')

        def source(pairs):
            if src == 'list':
                return list(pairs)
            if src == 'dict':
                return dict(pairs)
            if src == 'badpair':
                return list(pairs) + [('only-one-member',)]
            if src == 'keysobj':
                # no Mapping, no iterable of pairs: an object with keys() and __getitem__ (a database row, a message header set)
                class Row:
                    def __init__(self, d):
                        self._d = d

                    def keys(self):
                        return list(self._d)

                    def __getitem__(self, key):
                        return self._d[key]
                return Row(dict(pairs))

            def gen():
                for pair in pairs:
                    yield pair
                if src == 'raise':
                    raise ZeroDivisionError('the source fails after %d pairs' % len(pairs))
            return gen()
        return _norm(lambda: ix.update(source(items))), _norm(lambda: ref.update(source([(HKey(a), b) for a, b in items])))
    if name == 'keys':
        return _norm(lambda: [fp(k) for k in ix.keys()]), _norm(lambda: [fp(k.key) for k in ref.keys()])
    if name == 'iter':
        return _norm(lambda: [fp(k) for k in ix]), _norm(lambda: [fp(k.key) for k in ref])
    if name == 'reversed':
        return _norm(lambda: [fp(k) for k in reversed(ix)]), _norm(lambda: [fp(k.key) for k in reversed(ref)])
    if name == 'values':
        return _norm(lambda: [fp(v) for v in ix.values()]), _norm(lambda: [fp(v) for v in ref.values()])
    if name == 'items':
        return _norm(lambda: [(fp(k), fp(v)) for k, v in ix.items()]), _norm(lambda: [(fp(k.key), fp(v)) for k, v in ref.items()])
    if name == 'len':
        return _norm(lambda: len(ix)), _norm(lambda: len(ref))
    if name == 'clear':
        return _norm(ix.clear), _norm(ref.clear)
    if name == 'churn':
        def run(target, wrap):
            out = []
            if not len(target):
                target[wrap('churn-seed')] = 0
            for i in range(op['n']):
                target[wrap('churn-%d' % i)] = i
                k, v = target.popitem(last=False)
                out.append(fp(getattr(k, 'key', k)))
            return out
        return _norm(lambda: run(ix, lambda k: k)), _norm(lambda: run(ref, HKey))
    if name == 'eq':
        plain, wrapped = _other(ref, op['other'], 0, world)
        try:
            return _norm(lambda: (ix == plain, ix != plain, plain == ix)), _norm(lambda: (ref == wrapped, ref != wrapped, wrapped == ref))
        finally:
            if op['other'].endswith('index'):
                plain.cache.close()
    raise ValueError(name)


def run_seq(case):
    cfg = case['cfg']
    violations = []
    probes = {}
    world = World(case['seed'], clock={'mode': 'frozen'}, yield_clock=False)
    sim = world.sim
    nops = 0
    try:
        dc = world.dc
        parent = None
        # the name under which the parent keeps the object: characters that mean something to file systems, URIs or patterns are
        # part of the name; objects whose names differ only in such characters are different objects
        subname = cfg.get('subname', 'ix')
        siblings = {}
        if cfg['origin'] == 'fanout':
            parent = dc.FanoutCache(world.path('f'), shards=2, **cfg.get('parent_opts', {}))
            ix = parent.index(subname)
            probes['from_fanout'] = 1
        elif cfg['origin'] == 'django':
            from .. import seams
            mod = seams.install_django()
            parent = mod.DjangoCache(world.path('dj'), {'SHARDS': 2, 'OPTIONS': dict(cfg.get('parent_opts', {}))})
            ix = parent.index(subname)
            probes['from_django'] = 1
        elif cfg['origin'] == 'temp':
            # no directory given: the object makes its own, which then belongs to everything that refers to it by path
            ix = dc.Index()
            probes['own_temporary_directory'] = 1
        else:
            ix = dc.Index(world.path('ix'))
        directory = ix.directory
        if parent is not None and subname != 'ix':
            for alias in sorted(({subname.replace(c, '_') for c in ':*?"<>|'} | {subname.replace(':', '*')}) - {subname}):
                sib = parent.index(alias)
                sib['sibling'] = alias
                siblings[alias] = sib
            probes['named_with_special_characters'] = 1
        ix.cache.reset('disk_min_file_size', cfg['mfs'])
        if case['seed'] % 3 == 0:
            ix.cache.reset('size_limit', 1000)
        ref = collections.OrderedDict()
        pidn = 1
        for idx, op in enumerate(case['prog']):
            name = op['op']
            nops += 1
            if name in ('reopen', 'restart'):
                if name == 'restart':
                    pidn += 1
                    sim.harness_proc.pid = pidn
                ix.cache.close()
                ix = dc.Index(directory)
                probes['lifecycle'] = probes.get('lifecycle', 0) + 1
                got = want = None
            elif name == 'parent':
                parent_call(parent, op['call'], subname)
                probes['parent_calls'] = probes.get('parent_calls', 0) + 1
                got = want = None
            elif name == 'view_kept':
                # a view object obtained BEFORE later insertions and removals shows the mapping as it is when it is asked
                views = (ix.keys(), ref.keys()) if op['what'] == 'keys' else ((ix.values(), ref.values()) if op['what'] == 'values' else (ix.items(), ref.items()))
                probe = 'view-kept-%d' % idx
                ix[probe] = 1
                ref[HKey(probe)] = 1
                if len(ref) > 1:
                    first = next(iter(ref))
                    del ix[first.key]
                    del ref[first]
                a, b = views
                if op['what'] == 'keys':
                    got = ('ok', fp([len(a), probe in a, [fp(k) for k in a]]))
                    want = ('ok', fp([len(b), HKey(probe) in b, [fp(k.key) for k in b]]))
                elif op['what'] == 'values':
                    got, want = ('ok', fp([len(a), [fp(v) for v in a]])), ('ok', fp([len(b), [fp(v) for v in b]]))
                else:
                    got = ('ok', fp([len(a), [(fp(k), fp(v)) for k, v in a]]))
                    want = ('ok', fp([len(b), [(fp(k.key), fp(v)) for k, v in b]]))
                probes['view_kept_across_changes'] = probes.get('view_kept_across_changes', 0) + 1
            elif name == 'iter_replace':
                # a pass over items() / values() is under way when another handle replaces the value of a key the pass has
                # not reached yet (by a value kept in a file): the key is there all along, so the pass yields it - with the
                # value it has when it is reached
                got = want = None
                if len(ref) >= 2:
                    view = ix.items() if op['what'] == 'items' else ix.values()
                    it = iter(view)
                    seen = [next(it)]
                    last_key = list(ref)[-1]
                    newv = 'R' * 40000 + str(idx)
                    other = dc.Index(directory)
                    other[last_key.key] = newv
                    other.cache.close()
                    ref[last_key] = newv
                    seen.extend(it)
                    exp_pass = list(ref.items()) if op['what'] == 'items' else list(ref.values())
                    if op['what'] == 'items':
                        exp_pass = [(k.key, v) for k, v in exp_pass]
                    got, want = ('ok', fp(seen)), ('ok', fp(exp_pass))
                    probes['pass_overlaps_replacement'] = probes.get('pass_overlaps_replacement', 0) + 1
            elif name == 'pickle':
                ix = pickle.loads(pickle.dumps(ix))
                probes['lifecycle'] = probes.get('lifecycle', 0) + 1
                got = want = None
            else:
                got, want = apply_both(ix, ref, op, world)
            if got != want:
                violations.append({'rule': 'C12/result', 'sig': name,
                                   'detail': 'call #%d %s: Index %s, OrderedDict %s' % (idx, json.dumps(op)[:100], got, want)})
                break
            try:
                now = [(fp(k), fp(v)) for k, v in ix.items()]
            except Exception as exc:  # noqa
                violations.append({'rule': 'C12/iteration-raises', 'sig': type(exc).__name__, 'detail': 'after call #%d %s' % (idx, json.dumps(op)[:100])})
                break
            exp = [(fp(k.key), fp(v)) for k, v in ref.items()]
            if now != exp or len(ix) != len(ref):
                violations.append({'rule': 'C12/contents', 'sig': name,
                                   'detail': 'after call #%d %s: Index %s, OrderedDict %s' % (idx, json.dumps(op)[:100], now[:6], exp[:6])})
                break
        if not violations:
            problems, empties, info = audit(directory)
            if problems:
                violations.append({'rule': 'C12/audit', 'sig': ','.join(sorted({p[0] for p in problems})), 'detail': str(problems[:3])})
        ix.cache.close()
        for alias, sib in sorted(siblings.items()):
            if list(sib.items()) != [('sibling', alias)] and not violations:
                violations.append({'rule': 'C12/named-objects-share-contents', 'sig': 'alias',
                                   'detail': 'the index named %r holds %r after work on the index named %r' % (alias, list(sib.items())[:5], subname)})
        if parent is not None:
            parent.close()
    finally:
        world.close()
    digest = hashlib.sha256(json.dumps(case, sort_keys=True).encode()).hexdigest()
    return {'violations': violations, 'digest': digest, 'steps': nops, 'switches': 0, 'fired': {}, 'probes': probes,
            'virtual_s': 0.0, 'nontrivial': nops >= 5, 'outcome': {'calls': nops}}


# ---- ordered model for concurrent runs -------------------------------------------

def od_apply(state, op, depth=0):
    """state: tuple of (kid, keyfp, vfp) in insertion order."""
    name = op['op']
    items = list(state)
    if name == 'popitem':
        if not items:
            return state, ('exc', 'KeyError')
        kid, kfp, vfp = items.pop() if op.get('last', True) else items.pop(0)
        return tuple(items), ('ok', 't(%s,%s)' % (kfp, vfp))
    if name == 'len':
        return state, ('ok', fp(len(items)))
    if name == 'items':
        return state, ('ok', fp([(a[1], a[2]) for a in items]))
    k = kvmodel.kid(op['k'])
    pos = next((i for i, it in enumerate(items) if it[0] == k), None)
    cur = items[pos][2] if pos is not None else None
    if name in ('setitem', 'set'):
        v = fp_spec(op['v'])
        if pos is None:
            items.append((k, fp(vals.dec(op['k'])), v))
        else:
            items[pos] = (k, items[pos][1], v)
        return tuple(items), ('ok', 'None' if name == 'setitem' else 'True')
    if name == 'add':
        if pos is not None:
            return state, ('ok', 'False')
        items.append((k, fp(vals.dec(op['k'])), fp_spec(op['v'])))
        return tuple(items), ('ok', 'True')
    if name == 'getitem':
        return state, (('ok', cur) if cur is not None else ('exc', 'KeyError'))
    if name == 'get':
        return state, ('ok', cur if cur is not None else (fp_spec(op['default']) if 'default' in op else 'None'))
    if name == 'contains':
        return state, ('ok', 'True' if cur is not None else 'False')
    if name == 'delitem':
        if pos is None:
            return state, ('exc', 'KeyError')
        del items[pos]
        return tuple(items), ('ok', 'None')
    if name == 'ipop':
        if pos is None:
            if 'default' in op:
                return state, ('ok', fp_spec(op['default']))
            return state, ('exc', 'KeyError')
        del items[pos]
        return tuple(items), ('ok', cur)
    if name == 'setdefault':
        if pos is None:
            v = fp_spec(op['v'])
            items.append((k, fp(vals.dec(op['k'])), v))
            return tuple(items), ('ok', v)
        return state, ('ok', cur)
    raise ValueError(name)


def factory(dc, path, cfg):
    ix = dc.Index(path)
    ix.cache.reset('disk_min_file_size', cfg.get('mfs', 0))
    return ix


def run_conc(case):
    cfg = case['cfg']
    probes = {}

    def prepare(world, main):
        if cfg.get('prefill'):
            for n, prog in sorted(case['progs'].items()):
                for op in prog:
                    if 'k' in op:
                        k = vals.dec(op['k'])
                        if k not in main:
                            main[k] = b'init-' + repr(k).encode() + b'x' * cfg.get('mfs', 0)

    def inspect(world, main, targets, out):
        sim = world.sim
        fresh = world.dc.Index(main.directory)
        op = {'op': 'items'}
        rec = {'task': 'final', 'i': 0, 'op': op, 'inv': sim.stamp()}
        rec['res'] = run_op(fresh, op)
        rec['ret'] = sim.stamp()
        out['history'].append(rec)
        out['audit'] = audit(main.directory)
        fresh.cache.close()

    # initial state for the model when prefilled
    init = []
    if cfg.get('prefill'):
        seen = set()
        for n, prog in sorted(case['progs'].items()):
            for op in prog:
                if 'k' in op:
                    k = vals.dec(op['k'])
                    kid = kvmodel.kid(op['k'])
                    if kid not in seen:
                        seen.add(kid)
                        init.append((kid, fp(k), fp(b'init-' + repr(k).encode() + b'x' * cfg.get('mfs', 0))))
    out = conc.run_and_inspect(case, inspect, factory=factory, prepare=prepare)
    violations = out['violations']
    base = {'digest': out.get('digest'), 'steps': out.get('steps', 0), 'switches': out.get('switches', 0),
            'fired': out.get('fired', {}), 'virtual_s': out.get('virtual_s', 0.0), 'picks': out.get('picks')}
    if conc.incident_violations(out, PROPERTY, violations):
        return dict(base, violations=violations, probes=out.get('probes', {}), nontrivial=True)
    for name, msg in conc.unexpected_exceptions(out):
        violations.append({'rule': 'C12/unexpected-exception', 'sig': msg.split(':')[0], 'detail': '%s: %s' % (name, msg)})
    hist = out['history']
    for h in hist:
        h['tolerate'] = False
        r = h['res']
        if r and r[0] == 'exc' and r[1] != 'KeyError':
            violations.append({'rule': 'C12/unexpected-exception', 'sig': r[1], 'detail': '%s %s -> %s' % (h['task'], json.dumps(h['op'])[:100], r)})
        if cfg.get('no_delete') and cfg.get('prefill') and r == ('exc', 'KeyError'):
            violations.append({'rule': 'C12/continuously-present-key-missed', 'sig': h['op']['op'],
                               'detail': '%s %s raised KeyError although no client ever removes a key in this run' % (h['task'], json.dumps(h['op'])[:100])})
    ops = lin.expand_setdefault(hist)
    try:
        ok, info = lin.check(ops, tuple(init), od_apply)
    except OverflowError:
        ok, info = True, {}
    if not ok:
        violations.append({'rule': 'C12/not-linearizable', 'sig': 'index-history',
                           'detail': 'no order explains the results against an ordered dictionary (no miss tolerated); stuck at %s' % (info.get('stuck_ops'),)})
    problems, empties, info2 = out['audit']
    if problems:
        violations.append({'rule': 'C12/audit', 'sig': ','.join(sorted({p[0] for p in problems})), 'detail': str(problems[:3])})
    pr = dict(out['probes'])
    if cfg.get('mfs', 0) < 100:
        pr['file_backed_replace'] = sum(1 for h in hist if h['op']['op'] == 'setitem')
    return dict(base, violations=violations, probes=pr, nontrivial=out['switches'] > 0, outcome={'ops': len(hist)})


def run_case(case):
    if case['cfg']['kind'] == 'conc':
        return run_conc(case)
    return run_seq(case)


from .c11 import shrink_candidates  # noqa
