"""C13 - a sharded cache is observably one cache with a fixed key-to-shard
mapping.  (hist) C03-style histories against FanoutCache with shards in
{1,2,3,8,13}, one ModelCache per shard, aggregates = sum/union over shards
exactly once, writer and reader handles in different simulated processes;
(routing) the shard of every key is compared with a recorded table produced by
the pinned release and across fresh interpreters started with different hash
seeds; (pairs) keys the cache treats as equal must land in one shard.
DESIGN.md section 9, C13."""
import hashlib
import json
import os
import random
import subprocess
import sys

from .. import seqcache, vals
from ..audit import audit, check_messages
from ..models import ModelCache
from ..ops import run_op, fp
from ..seq import RawView
from ..world import World

PROPERTY = 'C13'
LEVEL = 'exploration'
QUICK_S = 30
THOROUGH_S = 420
BATCH = 4
RULE = ('one evaluation = one seeded run: (hist) a single-client history of 20-200 FanoutCache calls (key-addressed operations, '
        'length, volume, clear, expire, evict, cull, statistics, iteration both ways, check, reopen of a handle by a fresh FanoutCache or by its own pickle round trip) through 1-2 handles in different '
        'simulated processes x shard count in {1,2,3,8,13} x settings, compared call by call with one reference model per shard '
        '(routing by an independent re-implementation of the released hash) incl. per-shard lazy-cull legality and the divided size '
        'limit; (routing) Disk.hash / JSONDisk.hash of ~140 keys x pickle protocols 0-5 compared with the table recorded from the '
        'pinned release and across two fresh interpreters with different PYTHONHASHSEED; (pairs) numerically equal int/float keys '
        'must map to one shard; non-trivial = at least 10 calls / at least one key compared; distinct = SHA-256 of the case')
RULE += ' ' + 'Histories also change a setting (cull_limit) through one handle and reload it (reset(key)) through the others; every shard of every handle is inspected afterwards.'
RULE += ' ' + 'Two seeds in a hundred change a disk_ setting on a live handle and read keys written afterwards through a fresh handle.'
RULE += ' ' + 'The equal-keys probe also runs with a Disk subclass whose put() folds keys.'
ASSUMPTIONS = ['histories use at most one member of each numerically-equal int/float pair (their split routing is known finding F11 and is probed separately)']
PROBES = ('cull_expired', 'reopen', 'unpickled_handle', 'routing_keys_compared', 'xproc_runs', 'two_handles', 'reopen_with_new_limit', 'setting_changed', 'disk_setting_changed_live')
TECHNIQUE = 'deterministic simulation (virtual clock, simulated processes) + per-shard model-based checking; routing compared with a recorded table and across fresh interpreters with different hash seeds'
LEVEL_TEXT = ('seeded exploration of call histories against per-shard reference models under the simulator, plus direct comparison '
              'of the routing function with a recorded table and across interpreters (the only nondeterminism the routing can depend on '
              'is the per-process hash seed, which the check varies).')
LEVEL_NOTE = 'trusted: reference model, the recorded routing table (fixtures/routing.json, produced by the pinned release), SQLite'

HERE = os.path.dirname(os.path.dirname(os.path.dirname(os.path.abspath(__file__))))
FIXTURE = os.path.join(HERE, 'fixtures', 'routing.json')
KEYS = ['a', 'b', 'ab', {'b': '61'}, 2, {'f': '2.5'}, {'f': '-7.25'}, 11, {'i': str(2 ** 63 - 1)}, {'i': str(2 ** 63)}, None, True,
        {'t': [1, 'x']}, '', {'b': ''}, 'é ', 'k1', 'k2', 'k3', 100, 101,
        # equal as Python objects, different as cache keys (their pickles differ): each is routed by its own bytes
        {'t': ['job', 1]}, {'t': ['job', {'f': '1.0'}]}, {'t': ['job', True]}]
PAIRS = [(1, {'f': '1.0'}), (0, {'f': '-0.0'}), (0, {'f': '0.0'}), (-1, {'f': '-1.0'}), (2 ** 53, {'f': repr(float(2 ** 53))}), (7, {'f': '7.0'})]
FS_KEYS = [{'fs': ['a', 'b', 'c']}, {'t': ['a', {'fs': ['x', 'y']}]}, {'fs': [{'b': '61'}, {'b': '62'}, {'b': '63'}]}]


def ref_hash(key, protocol):
    """Independent re-implementation of the released Disk.hash."""
    import pickle
    import pickletools
    import struct
    import zlib
    mask = 0xFFFFFFFF
    t = type(key)
    if t is bytes:
        return zlib.adler32(key) & mask
    if t is str:
        return zlib.adler32(key.encode('utf-8')) & mask
    if t is int and -2 ** 63 <= key < 2 ** 63:
        return key % mask
    if t is float:
        return zlib.adler32(struct.pack('!d', key)) & mask
    data = pickletools.optimize(pickle.dumps(key, protocol=protocol))
    return zlib.adler32(data) & mask


def gen_case(seed, tier):
    rng = random.Random('%s/c13' % seed)
    r = rng.random()
    if r < 0.04:
        return {'seed': seed, 'cfg': {'kind': 'routing', 'hashseeds': [rng.randrange(1, 1000), rng.randrange(1000, 2000)],
                                      'extra_keys': [rng.choice(('q%d' % rng.randrange(10 ** 6), rng.randrange(-10 ** 12, 10 ** 12),
                                                                 {'t': [rng.randrange(100), 'z']}, {'f': repr(rng.random() * 1000)}))
                                                     for _ in range(30)] + FS_KEYS}}
    if r < 0.12 and r >= 0.10:
        # a disk_ setting changed on a live handle: from then on this handle and every other one serialise and route keys alike
        return {'seed': seed, 'cfg': {'kind': 'disk_setting', 'shards': rng.choice((2, 3, 8, 13)), 'first': rng.choice((None, 0, 2, 4)),
                                      'then': rng.choice((0, 2, 3, 5)), 'json': rng.random() < 0.2}}
    if r < 0.10:
        cfg = {'kind': 'pairs', 'shards': rng.choice((2, 3, 8, 13)), 'pair': rng.randrange(len(PAIRS))}
        if rng.random() < 0.4:
            cfg['fold'] = rng.choice((['Alpha', 'alpha'], ['KEY-%d' % rng.randrange(50), 'key-%d' % 0], [7, {'f': '7.0'}], ['Stra\u00dfe', 'strasse']))
            if cfg['fold'][1] == 'key-0':
                cfg['fold'][1] = cfg['fold'][0].lower()
        return {'seed': seed, 'cfg': cfg}
    settings = seqcache.gen_settings(rng, 'c13')
    settings.pop('disk_pickle_protocol', None)
    proto = rng.choice((None, None, 0, 2, 4, 5))
    if proto is not None:
        settings['disk_pickle_protocol'] = proto
    shards = rng.choice((1, 2, 3, 8, 13))
    n_ops = rng.choice((20, 40, 80)) if tier == 'quick' else rng.choice((30, 80, 200))
    saved = seqcache.KEYS
    seqcache.KEYS = KEYS
    try:
        prog = seqcache.gen_prog(rng, n_ops, rng.choice(('mixed', 'nottl')), settings['disk_min_file_size'])
    finally:
        seqcache.KEYS = saved
    prog = [op for op in prog if op['op'] not in ('peekitem', 'iterkeys', 'push', 'pull', 'peek')]
    for op in prog:
        op.pop('now_shift', None)      # FanoutCache.expire() takes no `now`
    for op in prog:
        if op['op'] == 'read' and op.get('k') is None:
            pass
    nproc = rng.choice((1, 1, 2))
    if nproc > 1:
        prog = [op for op in prog if op['op'] != 'stats']
        for op in prog:
            if op['op'] not in ('advance', 'reopen'):
                op['proc'] = rng.randrange(nproc)
    for op in prog:
        if op['op'] == 'reopen':
            # a handle is replaced by a fresh FanoutCache(directory, shards=n) or by its own pickle round trip (what
            # multiprocessing hands to a worker): both must route every key as before
            op['how'] = rng.choice(('open', 'pickle'))
            op['proc'] = rng.randrange(nproc)
            if op['how'] == 'open' and rng.random() < 0.3:
                # a restart with another configured limit (far above anything these histories store: size pressure is C09's)
                op['new_limit'] = rng.choice((2 ** 28, 2 ** 29, 3 * 2 ** 28))
    if rng.random() < 0.4:
        # a setting is changed through one handle (reset(key, value): every shard, and stored) and the other handles reload
        # it the documented way (reset(key)): afterwards every shard of every handle goes by the new value
        for _ in range(rng.choice((1, 2))):
            prog.insert(rng.randint(0, len(prog)), {'op': 'resetting', 'key': 'cull_limit', 'value': rng.choice((0, 1, 3, 10)),
                                                    'proc': rng.randrange(nproc)})
    if rng.random() < 0.5:
        prog.append({'op': 'checkall'})
    cfg = {'kind': 'hist', 'settings': settings, 'shards': shards, 'nproc': nproc,
           'size_limit_given': rng.random() < 0.5}
    return {'seed': seed, 'cfg': cfg, 'prog': prog}


# ---------------------------------------------------------------------------

def run_hist(case):
    cfg = case['cfg']
    settings = dict(cfg['settings'])
    if not cfg.get('size_limit_given'):
        settings.pop('size_limit', None)
    total_limit = settings.get('size_limit', 2 ** 30)
    shards = cfg['shards']
    proto = settings.get('disk_pickle_protocol', 5)
    violations = []
    probes = {}
    world = World(case['seed'], clock={'mode': 'frozen'}, yield_clock=False)
    sim = world.sim
    nops = 0
    pid = PROPERTY
    try:
        dc = world.dc
        path = world.path('f')
        handles = [dc.FanoutCache(path, shards=shards, **settings)]
        for _ in range(cfg['nproc'] - 1):
            handles.append(dc.FanoutCache(path, shards=shards))
        if cfg['nproc'] > 1:
            probes['two_handles'] = 1
        fc = handles[0]
        for sh in fc._shards:
            if sh.size_limit != total_limit / shards:
                violations.append({'rule': 'C13/size-limit-not-divided', 'sig': 'create',
                                   'detail': 'shard size_limit %r, expected %r' % (sh.size_limit, total_limit / shards)})
        raws = [RawView(sh.directory) for sh in fc._shards]
        models = [ModelCache(policy=settings.get('eviction_policy', 'least-recently-stored'), cull_limit=settings.get('cull_limit', 10),
                             statistics=settings.get('statistics', 0), size_limit=total_limit / shards) for _ in range(shards)]
        for idx, op in enumerate(case['prog']):
            if violations:
                break
            name = op['op']
            if name == 'advance':
                sim.advance(op['dt'])
                continue
            if name == 'reopen':
                hi = op.get('proc', 0) % len(handles)
                if op.get('how') == 'pickle':
                    import pickle
                    blob = pickle.dumps(handles[hi])
                    handles[hi].close()
                    handles[hi] = pickle.loads(blob)
                    probes['unpickled_handle'] = probes.get('unpickled_handle', 0) + 1
                    if len(handles[hi]._shards) != shards:
                        violations.append({'rule': 'C13/shard-count-changed', 'sig': 'pickle',
                                           'detail': 'unpickled handle has %d shards, the cache has %d' % (len(handles[hi]._shards), shards)})
                elif op.get('new_limit'):
                    handles[hi].close()
                    handles[hi] = dc.FanoutCache(path, shards=shards, size_limit=op['new_limit'])
                    total_limit = op['new_limit']
                    for m in models:
                        m.size_limit = total_limit / shards
                    for other in handles:
                        if other is not handles[hi]:
                            other.reset('size_limit')      # the other handles reload the stored setting the documented way
                    probes['reopen_with_new_limit'] = probes.get('reopen_with_new_limit', 0) + 1
                else:
                    handles[hi].close()
                    handles[hi] = dc.FanoutCache(path, shards=shards)
                for hn, h in enumerate(handles):
                    for sh in h._shards:
                        if sh.size_limit != total_limit / shards and not violations:
                            violations.append({'rule': 'C13/size-limit-not-divided', 'sig': 'reopen' if h is handles[hi] else 'reload',
                                               'detail': 'after the reopen of handle %d: a shard of handle %d has size_limit %r, expected %r'
                                                         % (hi, hn, sh.size_limit, total_limit / shards)})
                probes['reopen'] = probes.get('reopen', 0) + 1
                continue
            if name == 'resetting':
                hi = op.get('proc', 0) % len(handles)
                got = handles[hi].reset(op['key'], op['value'])
                reloaded = [other.reset(op['key']) for other in handles if other is not handles[hi]]
                for m in models:
                    setattr(m, op['key'], op['value'])
                if got != op['value'] or any(r != op['value'] for r in reloaded):
                    violations.append({'rule': 'C13/setting-not-applied', 'sig': op['key'],
                                       'detail': 'reset(%r, %r) returned %r, reloads returned %r' % (op['key'], op['value'], got, reloaded)})
                for hn, h in enumerate(handles):
                    stale = [getattr(sh, op['key']) for sh in h._shards if getattr(sh, op['key']) != op['value']]
                    if stale and not violations:
                        violations.append({'rule': 'C13/setting-not-applied', 'sig': '%s:%s' % (op['key'], 'set' if hn == hi else 'reload'),
                                           'detail': 'after reset(%r, %r) through handle %d and a reload by the others, %d shard(s) of '
                                                     'handle %d still go by %r' % (op['key'], op['value'], hi, len(stale), hn, stale[0])})
                probes['setting_changed'] = probes.get('setting_changed', 0) + 1
                if violations:
                    break
                continue
            pi = op.get('proc', 0) % len(handles)
            sim.harness_proc.pid = 1 + pi
            fc = handles[pi]
            now = sim.now
            nops += 1
            if name == 'checkall':
                msgs = []
                for w in fc.check():
                    msgs.append(str(w.message))
                bad = [m for m in msgs if not m.startswith('empty directory')]
                if bad:
                    violations.append({'rule': 'C13/check', 'sig': ','.join(sorted({m.split(':')[0] for m in bad})), 'detail': str(bad[:3])})
                continue
            got = run_op(fc, op)
            if 'k' in op:
                key = vals.dec(op['k'])
                si = ref_hash(key, proto) % shards
                want = models[si].do(op, now)
                for j, m in enumerate(models):
                    if j != si:
                        m.pending = None
            else:
                want = aggregate(models, op, now)
            if want is not None and tuple(got) != tuple(want):
                violations.append({'rule': 'C13/result', 'sig': name,
                                   'detail': 'op #%d %s at t=%r: FanoutCache %s, per-shard model %s' % (idx, json.dumps(op)[:120], now, got, want)})
                break
            for j, (m, rv) in enumerate(zip(models, raws)):
                before = len(violations)
                m.reconcile(rv.rowids(), now, violations, pid)
                if len(violations) > before:
                    violations[-1]['detail'] = 'shard %d after op #%d %s: %s' % (j, idx, json.dumps(op)[:100], violations[-1]['detail'])
                    if 'k' in op and violations[-1]['rule'].endswith('unexplained-row'):
                        violations[-1]['rule'] = 'C13/routing-changed'
                        violations[-1]['sig'] = 'row-in-unexpected-shard'
            probes['cull_expired'] = sum(m.culled_expired for m in models)
        if not violations:
            sim.harness_proc.pid = 1
            fc = handles[0]
            got_keys = [fp(k) for k in fc]
            want_keys = [fp(it.key) for m in models for it in m.sorted_items()]
            if got_keys != want_keys:
                violations.append({'rule': 'C13/final-contents', 'sig': 'iteration', 'detail': '%s != %s' % (got_keys[:8], want_keys[:8])})
            if len(fc) != len(want_keys):
                violations.append({'rule': 'C13/final-contents', 'sig': 'len', 'detail': '%d != %d' % (len(fc), len(want_keys))})
            vol = fc.volume()
            if vol != sum(sh.volume() for sh in fc._shards):
                violations.append({'rule': 'C13/aggregate', 'sig': 'volume', 'detail': str(vol)})
            for sh in fc._shards:
                problems, empties, info = audit(sh.directory)
                if problems:
                    violations.append({'rule': 'C13/audit', 'sig': ','.join(sorted({p[0] for p in problems})), 'detail': str(problems[:3])})
        for rv in raws:
            rv.close()
        for h in handles:
            h.close()
    finally:
        world.close()
    digest = hashlib.sha256(json.dumps(case, sort_keys=True).encode()).hexdigest()
    return {'violations': violations, 'digest': digest, 'steps': nops, 'switches': 0, 'fired': {}, 'probes': probes,
            'virtual_s': 0.0, 'nontrivial': nops >= 10, 'outcome': {'calls': nops}}


def aggregate(models, op, now):
    name = op['op']
    if name in ('clear', 'expire', 'evict', 'len'):
        total = 0
        for m in models:
            r = m.do(op, now)
            total += int(r[1][2:])
        return ('ok', fp(total))
    if name == 'cull':
        total = 0
        for m in models:
            r = m.op_expire(op, now)
            total += int(r[1][2:])
        return ('ok', fp(total))
    if name == 'iter':
        return ('ok', 'keys:' + json.dumps([fp(it.key) for m in models for it in m.sorted_items()]))
    if name == 'reversed':
        return ('ok', 'keys:' + json.dumps([fp(it.key) for m in reversed(models) for it in reversed(m.sorted_items())]))
    if name == 'stats':
        hits = sum(m.hits for m in models)
        misses = sum(m.misses for m in models)
        for m in models:
            m.op_stats(op, now)
        return ('ok', 't(%s,%s)' % (fp(hits), fp(misses)))
    raise ValueError('aggregate %r' % name)


# ---------------------------------------------------------------------------

def load_fixture():
    return json.load(open(FIXTURE))


CHILD = r'''
import json, sys
sys.path.insert(0, %(src)r)
sys.path.insert(0, %(verif)r)
from diskcache import Disk, JSONDisk
from simdc import vals
req = json.load(sys.stdin)
out = {}
for name, keys in req.items():
    d = JSONDisk('/x', compress_level=1, min_file_size=0, pickle_protocol=5) if name == 'json' else Disk('/x', 0, int(name[-1]))
    out[name] = [d.hash(vals.dec(k)) for k in keys]
json.dump(out, sys.stdout)
'''


def run_routing(case):
    cfg = case['cfg']
    fx = load_fixture()
    violations = []
    req = {name: [k for k, _ in tab] for name, tab in fx['tables'].items()}
    extra = cfg.get('extra_keys', [])
    req['disk-p5'] = req['disk-p5'] + extra
    req['disk-p2'] = req['disk-p2'] + extra
    src = os.environ.get('DISKCACHE_SRC', '/repo')
    outs = []
    for hs in cfg['hashseeds']:
        env = dict(os.environ, PYTHONHASHSEED=str(hs))
        p = subprocess.run([sys.executable, '-B', '-c', CHILD % {'src': src, 'verif': HERE}], input=json.dumps(req),
                           capture_output=True, text=True, env=env, timeout=120)
        if p.returncode != 0:
            raise RuntimeError('routing child failed: %s' % p.stderr[-500:])
        outs.append(json.loads(p.stdout))
    compared = 0
    for name, tab in fx['tables'].items():
        for i, (k, h) in enumerate(tab):
            compared += 1
            got = outs[0][name][i]
            if got != h:
                violations.append({'rule': 'C13/routing-changed', 'sig': 'recorded-table:%s' % name,
                                   'detail': 'key %s: hash %d, recorded %d (pinned release)' % (json.dumps(k), got, h)})
                break
    for name in req:
        for i, k in enumerate(req[name]):
            a, b = outs[0][name][i], outs[1][name][i]
            compared += 1
            if a != b:
                cls = 'frozenset-of-text-or-bytes' if 'fs' in json.dumps(k) else 'key'
                violations.append({'rule': 'C13/routing-differs-between-processes', 'sig': cls,
                                   'detail': 'key %s hashes to %d under PYTHONHASHSEED=%s and %d under %s' % (
                                       json.dumps(k), a, cfg['hashseeds'][0], b, cfg['hashseeds'][1])})
                break
    digest = hashlib.sha256(json.dumps(case, sort_keys=True).encode()).hexdigest()
    return {'violations': violations, 'digest': digest, 'steps': compared, 'switches': 0, 'fired': {},
            'probes': {'routing_keys_compared': compared, 'xproc_runs': 1}, 'virtual_s': 0.0, 'nontrivial': True,
            'outcome': {'keys_compared': compared}}


def run_pairs(case):
    cfg = case['cfg']
    a, b = PAIRS[cfg['pair']]
    violations = []
    world = World(case['seed'], clock={'mode': 'frozen'}, yield_clock=False)
    try:
        dc = world.dc
        dkw = {}
        if cfg.get('fold'):
            # a user Disk (the documented extension point) whose put() maps several spellings to one stored key
            a, b = cfg['fold']

            class FoldDisk(dc.Disk):
                def put(self, key):
                    if type(key) is str:
                        key = key.casefold()
                    elif type(key) is float and key == int(key):
                        key = int(key)
                    return super().put(key)
            dkw = {'disk': FoldDisk}
        fc = dc.FanoutCache(world.path('f'), shards=cfg['shards'], **dkw)
        ka, kb = vals.dec(a), vals.dec(b)
        plain = dc.Cache(world.path('c'), **dkw)
        plain[ka] = 'v'
        same_in_cache = kb in plain
        fc[ka] = 'v'
        sa = fc._hash(ka) % fc._count
        sb = fc._hash(kb) % fc._count
        found = kb in fc
        if same_in_cache and (sa != sb or not found):
            violations.append({'rule': 'C13/equal-keys-different-shards', 'sig': 'user-disk-folds-keys' if cfg.get('fold') else 'numerically-equal-int-float',
                               'detail': 'Cache treats %r and %r as one key, FanoutCache(shards=%d) routes them to shards %d and %d (lookup finds it: %s)'
                                         % (ka, kb, cfg['shards'], sa, sb, found)})
        plain.close()
        fc.close()
    finally:
        world.close()
    digest = hashlib.sha256(json.dumps(case, sort_keys=True).encode()).hexdigest()
    return {'violations': violations, 'digest': digest, 'steps': 1, 'switches': 0, 'fired': {}, 'probes': {'routing_keys_compared': 2},
            'virtual_s': 0.0, 'nontrivial': True, 'outcome': {'pair': [a, b]}}


def run_disk_setting(case):
    cfg = case['cfg']
    violations = []
    world = World(case['seed'], clock={'mode': 'frozen'}, yield_clock=False)
    try:
        dc = world.dc
        kw = {} if cfg['first'] is None else {'disk_pickle_protocol': cfg['first']}
        if cfg['json']:
            kw = {'disk': dc.JSONDisk, 'disk_compress_level': 1}
        a = dc.FanoutCache(world.path('f'), shards=cfg['shards'], **kw)
        if cfg['json']:
            a.reset('disk_compress_level', 6)
            keys = ['k%d' % i for i in range(12)] + [['list', i] for i in range(6)]
        else:
            a.reset('disk_pickle_protocol', cfg['then'])
            keys = [(i, 'x') for i in range(8)] + [None, 2 ** 70, ('t', (1, 2)), frozenset([1, 2])] + [(b'b', i) for i in range(4)]
        for i, k in enumerate(keys):
            a.set(k, i, retry=True)
        b = dc.FanoutCache(world.path('f'), shards=cfg['shards'], **({'disk': dc.JSONDisk} if cfg['json'] else {}))
        for i, k in enumerate(keys):
            ga, gb = a.get(k, retry=True), b.get(k, retry=True)
            if ga != i or gb != i:
                violations.append({'rule': 'C13/written-by-one-handle-not-found-by-another', 'sig': 'disk-setting-changed-on-live-handle',
                                   'detail': 'key %r written after reset of a disk_ setting: the writing handle reads %r, a fresh handle %r (stored %r)' % (k, ga, gb, i)})
                break
        if len(a) != len(keys) and not violations:
            violations.append({'rule': 'C13/written-by-one-handle-not-found-by-another', 'sig': 'count', 'detail': '%d items for %d keys' % (len(a), len(keys))})
        a.close()
        b.close()
    finally:
        world.close()
    digest = hashlib.sha256(json.dumps(case, sort_keys=True).encode()).hexdigest()
    return {'violations': violations, 'digest': digest, 'steps': 30, 'switches': 0, 'fired': {}, 'probes': {'disk_setting_changed_live': 1, 'routing_keys_compared': 20},
            'virtual_s': 0.0, 'nontrivial': True, 'outcome': {'keys': 20}}


def run_case(case):
    kind = case['cfg']['kind']
    if kind == 'disk_setting':
        return run_disk_setting(case)
    if kind == 'routing':
        return run_routing(case)
    if kind == 'pairs':
        return run_pairs(case)
    return run_hist(case)


def shrink_candidates(case):
    if case['cfg']['kind'] != 'hist':
        return iter(())
    from .c03 import shrink_candidates as sc
    return sc(case)
