"""C08 - counters, rows and value files agree once no operation is in flight.
Full-API histories (replace, add-on-present, incr, bulk removal, eviction under
a small size limit, queue operations, committing and aborting blocks, streams,
unencodable values) with exactly ONE injected failure per run: the n-th SQL
statement or the n-th file-system call of a chosen operation fails, enumerated
over all n for each sampled workload (thorough) or sampled (quick); plus lock
timeouts against a holder and fault-free concurrent runs.  At quiescence the
independent auditor and the library's own check() must find nothing.
DESIGN.md section 9, C08."""
import copy
import json
import random

from .. import conc, seqcache, vals
from ..audit import audit, check_messages
from ..ops import fp, run_op
from . import c05

PROPERTY = 'C08'
LEVEL = 'fault_enumeration'
QUICK_S = 40
THOROUGH_S = 600
BATCH = 2
MIN_RUNS = 8
RULE = ('one evaluation = one simulated run of a sampled full-API workload (1 client, or 2-3 concurrent clients) with at most one '
        'injected failure: SQL statement n of operation j raises OperationalError (a failing COMMIT rolls back, as SQLite does on '
        'FULL/IOERR), or file-system call n of operation j (open/write/close/read/makedirs/remove/removedirs) raises OSError '
        '(ENOSPC, EIO, EACCES, EMFILE, EEXIST), or the value is unencodable / its source stream fails / an argument is of the wrong kind (side, expire, tag, delta) while the value goes to a file, or another client holds the '
        'write lock past the timeout; for each sampled workload (j, n) is enumerated over every statement and file call of every '
        'operation in the thorough tier and sampled in the quick tier; non-trivial = a fault fired or clients interleaved; '
        'distinct = SHA-256 of the seam event log')
RULE += ' ' + 'A third of the injected OS errors last for up to three further calls of the same kind within the operation.'
RULE += ' ' + 'A third of the lasting OS errors last twelve calls.'
ASSUMPTIONS = ['one failure per run (fault pairs are not explored)', 'if the injected failure is the unlink itself, that one file may remain (stated allowance)']
PROBES = ('sqlerr', 'oserr', 'commit_failed', 'unencodable', 'stream_error', 'timeout_seen', 'block_aborted', 'bad_argument', 'interrupt')
TECHNIQUE = 'deterministic simulation with single-fault enumeration: n-th statement / n-th file call failure over all n of sampled workloads; independent directory auditor + check() at quiescence'
LEVEL_TEXT = ('fault enumeration: workloads are sampled by seed; within a workload the single failure point is enumerated over all SQL '
              'statements and file-system calls of every operation (thorough tier), so for that workload the single-fault quantifier is '
              'decided completely at seam granularity. The oracle is an auditor independent of the library (raw SQL + directory walk) '
              'and the library\'s own check().')
LEVEL_NOTE = 'trusted: SQLite, tmpfs, the auditor; injected errors are raised at the seam instead of the real call (partial effect for write: half the chunk)'


def gen_case(seed, tier):
    rng = random.Random('%s/c08' % seed)
    settings = seqcache.gen_settings(rng, 'c08')
    mfs = settings['disk_min_file_size'] = rng.choice((0, 8, 8, 64))
    if rng.random() < 0.4:
        settings['size_limit'] = rng.choice((40000, 60000))
    settings['cull_limit'] = rng.choice((0, 1, 10, 10))
    conc_run = rng.random() < 0.3
    n_ops = rng.choice((6, 10, 16)) if tier == 'quick' else rng.choice((8, 16, 30))
    progs = {}
    nclients = rng.choice((2, 3)) if conc_run else 1
    for ci in range(nclients):
        prog = [op for op in seqcache.gen_prog(rng, n_ops, 'expiry', mfs) if op['op'] not in ('reopen', 'stats', 'iterkeys')]
        prog = prog[:n_ops * 3]
        prog = spice(rng, prog, ci, mfs)
        progs['c%d' % ci] = prog
    target = 'cache'
    if rng.random() < 0.3:
        target = rng.choice(('deque', 'index', 'fanout'))
        big_n = mfs + 20
        progs = {}
        for ci in range(nclients):
            progs['c%d' % ci] = [gen_other_op(rng, target, ci, j, big_n) for j in range(n_ops)]
    holder = (not conc_run) and rng.random() < 0.2
    if target == 'deque':
        settings = {}
    if target == 'index':
        settings = {}
    if target == 'fanout':
        settings = {k: v for k, v in settings.items() if k in ('disk_min_file_size', 'cull_limit', 'eviction_policy', 'statistics')}
    cfg = {'settings': settings, 'target': target, 'mfs': mfs, 'maxlen': rng.choice((None, 2, 3)), 'shards': rng.choice((2, 3)), 'topology': rng.choice(('shared', 'own', 'procs')) if conc_run else 'procs',
           'sched': rng.choice(({'kind': 'uniform'}, {'kind': 'sticky', 'p': 0.8})), 'clock': {'mode': 'frozen'},
           'yield_clock': False, 'dircollide': rng.random() < 0.5, 'timeout': 0.05 if holder else 60, 'conc': conc_run}
    if holder:
        progs['h'] = [{'op': 'txn', 'retry': True, 'body': [{'op': 'sleep', 'dt': rng.choice((0.01, 1.0, 5.0))}]}
                      for _ in range(rng.randint(1, 3))]
    return {'seed': seed, 'cfg': cfg, 'progs': progs, 'faults': []}


def gen_other_op(rng, target, ci, j, big_n):
    v = c05.uniq_value(rng, ci, j, big_n)
    if target == 'deque':
        name = rng.choice(('append', 'append', 'appendleft', 'dpop', 'dpopleft', 'dpeek', 'dlist', 'txn'))
        if name == 'txn':
            body = [{'op': rng.choice(('append', 'appendleft')), 'v': c05.uniq_value(rng, ci, j * 10 + b, big_n)} for b in range(rng.randint(1, 3))]
            body.append({'op': rng.choice(('dpop', 'dpopleft'))})
            blk = {'op': 'txn', 'body': body}
            if rng.random() < 0.5:
                blk['raise_at'] = rng.randint(0, len(body))
                blk['raise_kind'] = rng.choice(('exc', 'base'))
            return blk
        op = {'op': name}
        if name.startswith('append'):
            op['v'] = v
        return op
    k = rng.choice(('a', 'b', 'c', 7))
    if target == 'index':
        name = rng.choice(('setitem', 'setitem', 'getitem', 'delitem', 'ipop', 'setdefault', 'popitem', 'items', 'txn'))
        if name == 'txn':
            body = [{'op': 'setitem', 'k': rng.choice(('a', 'b')), 'v': c05.uniq_value(rng, ci, j * 10 + b, big_n)} for b in range(rng.randint(1, 3))]
            body.append({'op': 'popitem', 'last': rng.random() < 0.5})
            blk = {'op': 'txn', 'body': body}
            if rng.random() < 0.5:
                blk['raise_at'] = rng.randint(0, len(body))
                blk['raise_kind'] = rng.choice(('exc', 'base'))
            return blk
        op = {'op': name}
        if name not in ('popitem', 'items'):
            op['k'] = k
        if name in ('setitem', 'setdefault'):
            op['v'] = v
        if name == 'ipop':
            op['default'] = 'dflt'
        return op
    name = rng.choice(('set', 'set', 'add', 'incr', 'get', 'pop', 'delete', 'touch', 'clear', 'expire', 'evict', 'cull', 'setitem', 'delitem', 'txn'))
    if name == 'txn':
        body = [{'op': 'set', 'k': rng.choice(('a', 'b', 'c')), 'v': c05.uniq_value(rng, ci, j * 10 + b, big_n), 'retry': True} for b in range(rng.randint(1, 3))]
        blk = {'op': 'txn', 'body': body}
        if rng.random() < 0.5:
            blk['raise_at'] = rng.randint(0, len(body))
            blk['raise_kind'] = rng.choice(('exc', 'base'))
        return blk
    op = {'op': name}
    if name in ('set', 'add', 'setitem'):
        op['v'] = v
        if rng.random() < 0.3 and name != 'setitem':
            op['expire'] = rng.choice((0, 1, 100))
        if rng.random() < 0.3 and name != 'setitem':
            op['tag'] = 't1'
    if name in ('set', 'add', 'incr', 'get', 'pop', 'delete', 'touch', 'setitem', 'delitem'):
        op['k'] = 'n' if name == 'incr' else k
    if name == 'evict':
        op['tag'] = 't1'
    return op


def spice(rng, prog, ci, mfs):
    """Add the operation kinds C08 names that the C03 generator lacks."""
    out = []
    for i, op in enumerate(prog):
        r = rng.random()
        if r < 0.10:
            body = [b for b in (rng.choice(prog) for _ in range(rng.randint(1, 3))) if b['op'] not in ('advance', 'txn')]
            blk = {'op': 'txn', 'body': copy.deepcopy(body), 'retry': True}
            if rng.random() < 0.5:
                blk['raise_at'] = rng.randint(0, len(body))
                blk['raise_kind'] = rng.choice(('exc', 'base'))
            out.append(blk)
        elif r < 0.14:
            out.append({'op': 'set', 'k': 'sur', 'v': {'big': ['str', mfs + 5, 'x']}, 'surrogate': True})
        elif r < 0.18:
            out.append({'op': 'set', 'k': 'strm', 'v': {'big': ['bytes', 50, 's%d' % i]}, 'read': True,
                        'stream_fail': rng.choice((None, 0, 10, 30)), 'stream_fail_kind': rng.choice((None, None, 'base'))})
        elif r < 0.26:
            out.append({'op': 'set', 'k': rng.choice(('a', 'b', 'big')), 'v': {'big': ['bytes', rng.choice((3000, 9000)), 'L%d-%d' % (ci, i)]}})
        elif r < 0.31:
            # a failure that is neither I/O nor SQL: an argument of the wrong kind, with a value that goes to a file
            big = {'big': ['bytes', rng.choice((mfs + 20, 3000)), 'B%d-%d' % (ci, i)]}
            out.append(rng.choice((
                {'op': 'push', 'v': big, 'side': 'sideways'},
                {'op': 'push', 'v': big, 'prefix': 'q', 'side': 'Back'},
                {'op': 'push', 'v': big, 'expire': 'soon'},
                {'op': 'set', 'k': 'a', 'v': big, 'expire': 'soon'},
                {'op': 'add', 'k': 'fresh-%d' % i, 'v': big, 'expire': 'soon'},
                {'op': 'set', 'k': 'a', 'v': big, 'tag': {'d': [['not', 'a tag']]}},
                {'op': 'add', 'k': 'fresh-%d' % i, 'v': big, 'tag': {'l': [1]}},
                {'op': 'push', 'v': big, 'tag': {'l': [1]}},
                {'op': 'touch', 'k': 'a', 'expire': 'soon'},
                {'op': 'incr', 'k': 'a', 'delta': 'x'},
                {'op': 'pull', 'side': 'sideways'},
            )))
            out[-1]['badarg'] = True
        elif r < 0.34:
            # a counter created by incr/decr whose first value is too big for an INTEGER column: it is pickled, and with a small
            # threshold it goes to a file
            if rng.random() < 0.5:
                # ... or re-created by it over an item that has expired
                out.append({'op': 'set', 'k': 'huge-%d' % i, 'v': 1, 'expire': 0, 'retry': True})
            out.append({'op': rng.choice(('incr', 'decr')), 'k': 'huge-%d' % i, 'default': 2 ** 70 + i, 'delta': 1, 'retry': True})
        out.append(op)
    return out


def run_case(case):
    cfg = case['cfg']
    probes = {}

    def inspect(world, main, targets, out):
        kind = cfg.get('target', 'cache')
        if kind == 'fanout':
            dirs = [sh.directory for sh in main._shards]
        elif kind in ('deque', 'index'):
            dirs = [main.cache.directory]
        else:
            dirs = [main.directory]
        problems, empties, info = [], [], {'rows': 0, 'size': 0}
        msgs = []
        length = 0
        volume = 0
        for d in dirs:
            fresh = world.dc.Cache(d)
            p, e, i = audit(d)
            problems += p
            empties += e
            info['rows'] += i.get('rows', 0)
            info['size'] += i.get('size', 0)
            msgs += check_messages(fresh)
            length += len(fresh)
            volume += fresh.volume()
            fresh.close()
        out['audit'] = (problems, empties, info)
        out['check'] = msgs
        out['len'] = length
        out['volume'] = volume

    def prepare(world, main):
        if cfg.get('target') in ('deque', 'index'):
            main.cache.reset('disk_min_file_size', cfg.get('mfs', 8))

    # surrogate values cannot be described in JSON-safe specs: patch them in here
    c = copy.deepcopy(case)
    for prog in c['progs'].values():
        for op in _all_ops(prog):
            if op.get('surrogate'):
                n = op['v']['big'][1]
                op['v'] = '\ud800' * max(n, 1)
    out = conc.run_and_inspect(c, inspect, prepare=prepare)
    violations = out['violations']
    base = {'digest': out.get('digest'), 'steps': out.get('steps', 0), 'switches': out.get('switches', 0),
            'fired': out.get('fired', {}), 'virtual_s': out.get('virtual_s', 0.0), 'picks': out.get('picks')}
    if conc.incident_violations(out, PROPERTY, violations):
        # a row left pointing at a removed file by known finding F16 makes peekitem/popitem/peek retry for ever:
        # the same cause, so the same signature suffix
        sfx = _swallowed_suffix(case, out)
        for v in violations:
            v['sig'] += sfx
        return dict(base, violations=violations, probes=out.get('probes', {}), nontrivial=True)
    allowed_exc = ()
    for name, msg in conc.unexpected_exceptions(out):
        violations.append({'rule': 'C08/escaped-exception', 'sig': msg.split(':')[0], 'detail': '%s: %s' % (name, msg)})
    fault = None
    for f in case.get('faults', []):
        fault = f
    fired_fault = None
    for h in out['history']:
        r = h['res']
        if r and r[0] == 'exc':
            if r[1] == 'Timeout':
                probes['timeout_seen'] = probes.get('timeout_seen', 0) + 1
            elif r[1] == 'UnicodeEncodeError':
                probes['unencodable'] = 1
            elif h['op'].get('badarg'):
                probes['bad_argument'] = 1
            elif r[1] in ('OSError', 'StreamInterrupt') and h['op'].get('stream_fail') is not None:
                probes['stream_error'] = 1
        if r and r[0] == 'ok' and isinstance(r[1], str) and r[1].startswith('abort:'):
            probes['block_aborted'] = 1
    problems, empties, info = out['audit']
    # Known finding F16: an operation fails inside a transact() block, the block's body swallows the
    # exception and the block commits -> the file written for the failed operation has no row.
    suffix = _swallowed_suffix(case, out)
    # stated allowance: the injected fault made the unlink itself fail
    problems = [p for p in problems if not (p[0] == 'file-unknown' and _unlink_faulted(out, p[1]))]
    if problems:
        violations.append({'rule': 'C08/audit', 'sig': ','.join(sorted({p[0] for p in problems})) + suffix,
                           'detail': '%s (fault %s)' % (problems[:4], json.dumps(fault))})
    msgs = [m for m in out['check'] if not m.startswith('empty directory')]
    msgs = [m for m in msgs if not (m.startswith('unknown file') and _unlink_faulted(out, m.split('D/', 1)[-1]))]
    if msgs:
        violations.append({'rule': 'C08/check', 'sig': ','.join(sorted({m.split(':')[0] for m in msgs})) + suffix,
                           'detail': '%s (fault %s)' % (msgs[:3], json.dumps(fault))})
    if info and out.get('len') != info.get('rows'):
        violations.append({'rule': 'C08/len', 'sig': 'len-vs-rows', 'detail': 'len()=%s rows=%s' % (out.get('len'), info.get('rows'))})
    if info and out.get('volume', 0) < info.get('size', 0):
        violations.append({'rule': 'C08/volume', 'sig': 'volume<size', 'detail': '%s < %s' % (out.get('volume'), info.get('size'))})
    pr = dict(out['probes'])
    pr.update(probes)
    if out['fired'].get('sqlerr'):
        pr['sqlerr'] = 1
    if out['fired'].get('oserr'):
        pr['oserr'] = 1
    if out['fired'].get('interrupt'):
        pr['interrupt'] = 1
    out['unlink_faults'] = None
    return dict(base, violations=violations, probes=pr,
                nontrivial=bool(out['fired']) or out['switches'] > 0 or bool(probes),
                outcome={'ops': len(out['history']), 'rows': info.get('rows') if info else None},
                counts=[(h['task'], h['i'], h.get('sql', 0), h.get('fs', 0)) for h in out['history']])


def _swallowed_suffix(case, out):
    fault = None
    for f in case.get('faults', []):
        fault = f
    if fault:
        for h in out.get('history', []):
            if h['task'] == fault.get('task') and h['i'] == fault.get('op') and h['op'].get('op') == 'txn':
                r = h['res']
                if r and r[0] == 'ok' and r[1].startswith('commit:') and '"exc"' in r[1] and out.get('fired'):
                    return ':error-swallowed-inside-committed-block'
    return ''


def _unlink_faulted(out, relpath):
    # an unlink that failed - or was interrupted, which also skips the unlinks queued behind it - leaves files that no row names
    return any(k.startswith('oserr:remove') for k in out.get('fired', {}))


def _all_ops(prog):
    for op in prog:
        yield op
        if op.get('op') == 'txn':
            for sub in _all_ops(op['body']):
                yield sub


FS_CALLS = ['open', 'write', 'close', 'read', 'makedirs', 'remove', 'removedirs']


def runner_guarded(pid, fn, case):
    from ..runner import guarded
    return guarded(pid, fn, case)


def run_seed(seed, tier):
    case = gen_case(seed, tier)
    rng = random.Random('%s/c08-fault' % seed)
    results = []
    base = runner_guarded(PROPERTY, run_case, copy.deepcopy(case))
    base['case'] = case
    base['first_of_seed'] = True
    counts = base.pop('counts', [])
    results.append(base)
    if base['violations']:
        return results
    points = []
    for task, i, nsql, nfs in counts:
        if task == 'h':
            continue
        for n in range(1, nsql + 1):
            points.append(('sqlerr', task, i, n))
        for n in range(1, nfs + 1):
            points.append(('oserr', task, i, n))
    if tier == 'quick':
        points = rng.sample(points, min(len(points), 10))
    elif len(points) > 500:
        points = rng.sample(points, 500)
    for kind, task, i, n in sorted(points):
        c = copy.deepcopy(case)
        if kind == 'sqlerr':
            c['faults'] = [{'f': 'sqlerr', 'task': task, 'op': i, 'n': n,
                            'msg': rng.choice(('disk I/O error', 'database or disk is full'))}]
        else:
            c['faults'] = [{'f': 'oserr', 'task': task, 'op': i, 'n': n, 'calls': FS_CALLS,
                            'errno': rng.choice(('ENOSPC', 'EIO', 'EACCES', 'EMFILE', 'EEXIST', 'INTERRUPT'))}]
            if c['faults'][0]['errno'] in ('EIO', 'EACCES', 'EMFILE', 'ENOSPC') and rng.random() < 0.3:
                # the condition lasts: every later call of that kind within the operation fails as well
                c['faults'][0]['lasting'] = True
                if rng.random() < 0.3:
                    c['faults'][0]['lasting_calls'] = 12      # ... for longer than the library's own ten attempts at opening a file
        r = runner_guarded(PROPERTY, run_case, copy.deepcopy(c))
        r.pop('counts', None)
        r['case'] = c
        r['first_of_seed'] = False
        results.append(r)
        if r['violations']:
            break
    results[0].setdefault('extra', {})['fault_points_enumerated'] = len(points)
    return results
