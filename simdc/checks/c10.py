"""C10 - push/pull/peek form exactly-once FIFO queues per prefix.
(a) single client: every result against the reference model (ModelCache queue
operations) over prefixes None/'a'/'b'/'a-5'/'a-b', both sides, expiring items,
file-backed values, ordinary keys outside the queue ranges; (b) 2-3 producers
and consumers under the seeded scheduler: linearizability against a queue
model (implies exactly-once and per-producer order) plus conservation;
(c) a consumer process killed inside pull.  DESIGN.md section 9, C10."""
import hashlib
import json
import random

from .. import conc, lin, seqcache, vals
from ..audit import audit, check_messages
from ..ops import fp, fp_spec, run_op
from . import c05

PROPERTY = 'C10'
LEVEL = 'exploration'
QUICK_S = 30
THOROUGH_S = 420
BATCH = 6
RULE = ('one evaluation = one seeded run: (a) a single-client history of push/pull/peek on both sides over prefixes None, a, b, '
        'a-5, a-b mixed with ordinary keys outside the queue ranges, expiring items and clock steps, file-backed values, compared '
        'call by call with the reference model; or (b) 2-3 producer/consumer clients (shared object / own objects / processes) on '
        '1-2 prefixes interleaved by the seeded scheduler, checked for linearizability against a per-prefix deque model and for '
        'conservation (pushed = pulled + remaining); or (c) the same with one consumer process killed at a seeded seam event of a '
        'pull; non-trivial = at least 3 queue operations (a) / a context switch (b, c); distinct = SHA-256 of program or event log')
RULE += ' ' + 'A fifth of the single-client histories run under JSONDisk (text values, no iteration).'
RULE += ' ' + 'One seed in 53 places a complete foreign pull at every value-file open of one peek, up to 29 times in a row.'
RULE += ' ' + "Ordinary keys include '<prefix>-<digits>' texts of other lengths than queue keys."
RULE += ' ' + 'One seed in 53 lets a producer push items right before the second look of a pull / peek that has just removed expired items.'
ASSUMPTIONS = ['free-running real producer/consumer processes are replaced by seeded schedules of simulated processes']
PROBES = ('queue_ops', 'cull_expired', 'lock_wait', 'related_prefixes', 'json_disk', 'lost_races', 'pushes_between_looks')
TECHNIQUE = 'deterministic simulation: model-based checking of queue histories under a virtual clock; seeded schedules + linearizability against a deque model; consumer crash injection'
LEVEL_TEXT = ('seeded exploration of queue histories and of producer/consumer interleavings under the simulator, decided by an '
              'executable queue model step by step and by a linearizability search for the concurrent runs (exactly-once and '
              'per-producer order follow from linearizability against a FIFO model).')
LEVEL_NOTE = 'trusted: reference model, SQLite, simulator kernel'

PREFIXES = [None, 'a', 'b', 'a-5', 'a-b', 'é', '', '5', 'a-b-c', 'a%', 'a_',
            # characters that mean something to LIKE, GLOB, string literals or C strings
            'q[1]', 'q1', 'a*', 'a?', "it's", 'a"b', 'a]', 'a\\', 'a b', 'A', '\U0001F600', 'a' * 300]
# ordinary keys outside the queue key ranges, including the range bounds themselves (the ranges are open intervals)
ORDINARY = ['x', 'a', 'b-', -5, {'i': str(10 ** 15)}, {'b': b'a-500000000000000'.hex()}, 'a-', {'t': [1, 2]},
            0, 999999999999999, 'a-000000000000000', 'a-999999999999999', 'b-000000000000000',
            # ordinary text keys that sort inside a queue's key range without having the shape of its keys
            'a-42', 'a-3', 'b-7', 'a-5000000000000000', 'a-50000000000000', '5-1', '-7']


def gen_case(seed, tier):
    rng = random.Random('%s/c10' % seed)
    if seed % 53 == 10:
        # a consumer finds expired items at its end of the queue, removes them (one transaction each) and looks again; a producer
        # pushes in the gaps.  What the consumer delivers is at that end of the queue when it looks
        return {'seed': seed, 'cfg': {'kind': 'gap', 'expired': rng.choice((1, 2, 3)), 'pushes': rng.choice((1, 2, 3)), 'call': rng.choice(('pull', 'peek')),
                                      'side': rng.choice(('front', 'front', 'back')), 'prefix': rng.choice((None, 'jobs')), 'mfs': rng.choice((0, 2 ** 15))}}
    if seed % 53 == 9:
        n = rng.choice((12, 15, 30))
        return {'seed': seed, 'cfg': {'kind': 'race', 'n': n, 'lost': rng.choice((1, 3, 9, 10, 11, n - 1)), 'call': 'peek',
                                      'side': rng.choice(('front', 'back')), 'prefix': rng.choice((None, 'jobs'))}}
    r = rng.random()
    kind = 'seq' if r < 0.55 else ('conc' if r < 0.9 else 'kill')
    mfs = rng.choice((0, 8, 8, 2 ** 15))
    big_n = {0: 12, 8: 40, 2 ** 15: 2 ** 15 + 5}[mfs]
    if kind == 'seq':
        settings = seqcache.gen_settings(rng, 'c10')
        settings['disk_min_file_size'] = mfs
        prefixes = rng.sample(PREFIXES, rng.randint(1, 4))
        n = rng.choice((10, 25, 60)) if tier == 'quick' else rng.choice((20, 60, 150))
        prog = []
        for i in range(n):
            q = rng.random()
            prefix = rng.choice(prefixes)
            side = rng.choice(('front', 'back'))
            if q < 0.40:
                op = {'op': 'push', 'v': c05.uniq_value(rng, 0, i, big_n), 'side': side}
                if rng.random() < 0.25:
                    op['expire'] = rng.choice((0, 1, 5, -1))
                if rng.random() < 0.2:
                    op['tag'] = 't1'
            elif q < 0.65:
                op = {'op': 'pull', 'side': side}
                if rng.random() < 0.2:
                    op['expire_time'] = True
                if rng.random() < 0.2:
                    op['tag'] = True
            elif q < 0.80:
                op = {'op': 'peek', 'side': side}
                if rng.random() < 0.2:
                    op['expire_time'] = True
            elif q < 0.90:
                k = rng.choice(ORDINARY)
                op = rng.choice(({'op': 'set', 'k': k, 'v': c05.uniq_value(rng, 1, i, big_n)}, {'op': 'get', 'k': k},
                                 {'op': 'delete', 'k': k}, {'op': 'len'}, {'op': 'iter'}, {'op': 'evict', 'tag': 't1'}))
                prog.append(op)
                continue
            else:
                prog.append({'op': 'advance', 'dt': rng.choice((0, 0.5, 1, 4, 6))})
                continue
            if prefix is not None:
                op['prefix'] = prefix
            prog.append(op)
        if rng.random() < 0.12:
            # a long run of items that have expired at one end of a queue (more than a page of whatever the library pages by),
            # live items behind them: pull and peek skip the expired ones and deliver the live
            prefix = rng.choice(prefixes)
            side = rng.choice(('front', 'back'))
            burst = []
            for i in range(rng.choice((100, 101, 130, 210))):
                op = {'op': 'push', 'v': i, 'side': side, 'expire': 1}
                if prefix is not None:
                    op['prefix'] = prefix
                burst.append(op)
            burst.append({'op': 'advance', 'dt': 5})
            for i in range(rng.randint(1, 3)):
                op = {'op': 'push', 'v': 'live-%d' % i, 'side': rng.choice(('front', 'back'))}
                if prefix is not None:
                    op['prefix'] = prefix
                burst.append(op)
            for name in ('peek', 'pull', 'pull', 'pull', 'peek'):
                op = {'op': name, 'side': side}
                if prefix is not None:
                    op['prefix'] = prefix
                burst.append(op)
            at = rng.randrange(len(prog) + 1)
            prog[at:at] = burst
        cfg = {'kind': 'seq', 'settings': settings, 'profile': 'queue'}
        if rng.random() < 0.2:
            # the shipped JSONDisk (keys and values in an encoding of the Disk's own): queue keys are written as they are, so
            # they come back as they are; values are what JSON can carry
            cfg['disk'] = 'json'
            for op in prog:
                v = op.get('v')
                if isinstance(v, dict) and 'big' in v:
                    op['v'] = {'big': ['str', v['big'][1], v['big'][2]]}
                elif isinstance(v, dict):
                    op['v'] = 'j-%s' % hashlib.sha256(json.dumps(v, sort_keys=True).encode()).hexdigest()[:8]
                if isinstance(op.get('tag'), dict):
                    op['tag'] = 't1'
                if isinstance(op.get('k'), dict):
                    op['k'] = 'jk-%s' % hashlib.sha256(json.dumps(op['k'], sort_keys=True).encode()).hexdigest()[:6]
            # (iteration decodes every key through the Disk: with queue keys in the cache it fails under JSONDisk - the
            # documented limit of that combination, 14.3 - so the JSON runs do not iterate)
            prog = [op for op in prog if not op.get('read') and op['op'] != 'iter']
            # ... and empty their queues before the final comparison, which does
            for pfx in prefixes:
                npush = sum(1 for op in prog if op['op'] == 'push' and op.get('prefix') == pfx)
                for _ in range(npush + 1):
                    op = {'op': 'pull', 'side': rng.choice(('front', 'back'))}
                    if pfx is not None:
                        op['prefix'] = pfx
                    prog.append(op)
        return {'seed': seed, 'cfg': cfg, 'prog': prog}
    prefixes = rng.sample([None, 'a', 'a-5'], rng.choice((1, 2)))
    nclients = rng.choice((2, 3))
    progs = {}
    for ci in range(nclients):
        role = rng.choice(('producer', 'consumer', 'both'))
        prog = []
        for j in range(rng.randint(2, 6)):
            prefix = rng.choice(prefixes)
            push = role == 'producer' or (role == 'both' and rng.random() < 0.5)
            if push:
                op = {'op': 'push', 'v': c05.uniq_value(rng, ci, j, big_n), 'side': rng.choice(('back', 'back', 'front')), 'retry': True}
            else:
                op = {'op': rng.choice(('pull', 'pull', 'peek')), 'side': rng.choice(('front', 'front', 'back')), 'retry': True}
            if prefix is not None:
                op['prefix'] = prefix
            prog.append(op)
        progs['c%d' % ci] = prog
    faults = []
    if kind == 'kill':
        victims = [(n, i) for n, p in progs.items() for i, o in enumerate(p) if o['op'] == 'pull']
        if victims:
            n, i = rng.choice(victims)
            faults.append({'f': 'kill', 'task': n, 'op': i, 'k': rng.randint(1, 12), 'torn': 0.5})
    cfg = {'kind': kind, 'target': 'cache', 'settings': {'disk_min_file_size': mfs, 'eviction_policy': rng.choice(('least-recently-stored', 'none'))},
           'topology': 'procs' if kind == 'kill' else rng.choice(('shared', 'own', 'procs')),
           'sched': rng.choice(({'kind': 'uniform'}, {'kind': 'sticky', 'p': 0.7}, {'kind': 'pct', 'd': 2, 'horizon': 200})),
           'clock': {'mode': 'frozen'}, 'yield_clock': False, 'dircollide': rng.random() < 0.5, 'post_stmt_yield': True,
           'timeout': 60, 'line_p': 0.0}
    return {'seed': seed, 'cfg': cfg, 'progs': progs, 'faults': faults}


# ---- queue model for the linearizability check ---------------------------------

def q_apply(state, op):
    """state: tuple of (prefix, tuple of (num, vfp)) sorted by repr(prefix)."""
    d = dict(state)
    prefix = op.get('prefix')
    items = list(d.get(prefix, ()))
    name = op['op']
    if name == 'push':
        side = op.get('side', 'back')
        if items:
            num = items[-1][0] + 1 if side == 'back' else items[0][0] - 1
        else:
            num = 500000000000000
        entry = (num, fp_spec(op['v']))
        if side == 'back':
            items.append(entry)
        else:
            items.insert(0, entry)
        key = num if prefix is None else '{0}-{1:015d}'.format(prefix, num)
        res = ('ok', fp(key))
    elif name in ('pull', 'peek'):
        side = op.get('side', 'front')
        if not items:
            return state, ('ok', 't(None,None)')
        num, vfp = items[0] if side == 'front' else items[-1]
        key = num if prefix is None else '{0}-{1:015d}'.format(prefix, num)
        res = ('ok', 't(%s,%s)' % (fp(key), vfp))
        if name == 'pull':
            if side == 'front':
                items.pop(0)
            else:
                items.pop()
    elif name == 'get':
        return state, None
    else:
        raise ValueError(name)
    d[prefix] = tuple(items)
    return tuple(sorted(d.items(), key=lambda kv: repr(kv[0]))), res


def run_conc(case):
    probes = {}

    def inspect(world, main, targets, out):
        fresh = world.dc.Cache(main.directory)
        sim = world.sim
        hist = out['history']
        prefixes = []
        for h in hist:
            p = h['op'].get('prefix')
            if p not in prefixes:
                prefixes.append(p)
        # drain what is left through the API: these pulls are ordinary operations of a final client
        remaining = 0
        for p in prefixes:
            while True:
                op = {'op': 'pull', 'side': 'front', 'retry': True}
                if p is not None:
                    op['prefix'] = p
                rec = {'task': 'final', 'i': 0, 'op': op, 'inv': sim.stamp()}
                rec['res'] = run_op(fresh, op)
                rec['ret'] = sim.stamp()
                hist.append(rec)
                if rec['res'] != ('ok', 't(None,None)'):
                    remaining += 1
                else:
                    break
                if remaining > 100:
                    break
        out['remaining'] = remaining
        out['len_after'] = len(fresh)
        out['check'] = check_messages(fresh)
        out['audit'] = audit(main.directory)
        fresh.close()

    out = conc.run_and_inspect(case, inspect)
    violations = out['violations']
    base = {'digest': out.get('digest'), 'steps': out.get('steps', 0), 'switches': out.get('switches', 0),
            'fired': out.get('fired', {}), 'virtual_s': out.get('virtual_s', 0.0), 'picks': out.get('picks')}
    if conc.incident_violations(out, PROPERTY, violations):
        return dict(base, violations=violations, probes=out.get('probes', {}), nontrivial=True)
    for name, msg in conc.unexpected_exceptions(out):
        violations.append({'rule': 'C10/unexpected-exception', 'sig': msg.split(':')[0], 'detail': '%s: %s' % (name, msg)})
    hist = out['history']
    for h in hist:
        r = h['res']
        if r and r[0] == 'exc':
            violations.append({'rule': 'C10/unexpected-exception', 'sig': r[1], 'detail': '%s %s -> %s' % (h['task'], json.dumps(h['op'])[:100], r)})
    for h in hist:
        h['tolerate'] = False
    try:
        ok, info = lin.check(hist, (), q_apply)
    except OverflowError:
        ok, info = True, {}
        probes['lin_overflow'] = 1
    if not ok:
        violations.append({'rule': 'C10/not-linearizable', 'sig': 'queue-history',
                           'detail': 'no FIFO-queue order explains the results; stuck at %s' % (info.get('stuck_ops'),)})
    # conservation
    pushed = sum(1 for h in hist if h['op']['op'] == 'push' and h['ret'] is not None)
    pushed_pending = sum(1 for h in hist if h['op']['op'] == 'push' and h['ret'] is None)
    pulled_vals = [h['res'][1] for h in hist if h['op']['op'] == 'pull' and h['ret'] is not None and h['res'] != ('ok', 't(None,None)')]
    inflight = sum(1 for h in hist if h['op']['op'] == 'pull' and h['ret'] is None)
    if len(pulled_vals) != len(set(pulled_vals)):
        violations.append({'rule': 'C10/duplicate-delivery', 'sig': 'pull', 'detail': str(sorted(pulled_vals)[:6])})
    lost = pushed - len(pulled_vals)
    if not (0 <= lost <= inflight) and not (pushed_pending and -pushed_pending <= lost <= inflight):
        violations.append({'rule': 'C10/conservation', 'sig': 'lost' if lost > 0 else 'extra',
                           'detail': 'pushed %d (+%d in flight), delivered %d, consumers killed in flight %d'
                                     % (pushed, pushed_pending, len(pulled_vals), inflight)})
    problems, empties, info2 = out['audit']
    bad_problems = [p for p in problems if not (out['fired'].get('kill') and p[0] == 'file-unknown')]
    if bad_problems:
        violations.append({'rule': 'C10/audit', 'sig': ','.join(sorted({p[0] for p in bad_problems})), 'detail': str(bad_problems[:3])})
    pr = dict(out['probes'])
    pr.update(probes)
    pr['queue_ops'] = len(hist)
    if len({h['op'].get('prefix') for h in hist} & {'a', 'a-5'}) == 2:
        pr['related_prefixes'] = 1
    return dict(base, violations=violations, probes=pr, nontrivial=out['switches'] > 0, outcome={'ops': len(hist), 'remaining': out.get('remaining')})


def run_race(case):
    """peek / pull next to a consumer that takes the front item away every time the caller is about to open its value file (the
    caller found the row, the file is gone when it opens it): the caller looks again, as often as it takes, and delivers what is
    at the front then - never 'empty' while items are queued."""
    from ..world import World
    cfg = case['cfg']
    violations = []
    world = World(case['seed'], clock={'mode': 'frozen'}, yield_clock=False)
    sim = world.sim
    try:
        dc = world.dc
        path = world.path('c')
        cache = dc.Cache(path, disk_min_file_size=0)
        other = dc.Cache(path)
        keys = [cache.push('item-%02d' % i + 'x' * 50, prefix=cfg['prefix'], side='back') for i in range(cfg['n'])]
        state = {'left': cfg['lost'], 'busy': False, 'taken': 0}

        def meanwhile(fpath, mode):
            if state['busy'] or state['left'] <= 0 or 'r' not in mode or not fpath.endswith('.val'):
                return
            state['busy'] = True
            try:
                other.pull(prefix=cfg['prefix'], side=cfg['side'], retry=True)
                state['left'] -= 1
                state['taken'] += 1
            finally:
                state['busy'] = False
        sim.on_open = meanwhile
        try:
            got = getattr(cache, cfg['call'])(prefix=cfg['prefix'], side=cfg['side'], retry=True)
        finally:
            sim.on_open = None
        order = keys if cfg['side'] == 'front' else keys[::-1]
        want_key = order[state['taken']] if state['taken'] < len(order) else None
        if got[0] != want_key:
            violations.append({'rule': 'C10/wrong-item-after-lost-races', 'sig': cfg['call'],
                               'detail': '%s(side=%r) lost the race for the %s item %d times and returned %r; %d items were queued then, the %s one being %r'
                                         % (cfg['call'], cfg['side'], cfg['side'], state['taken'], got[0], len(order) - state['taken'], cfg['side'], want_key)})
        other.close()
        cache.close()
    finally:
        world.close()
    digest = hashlib.sha256(json.dumps(case['cfg'], sort_keys=True).encode()).hexdigest()
    return {'violations': violations, 'digest': digest, 'steps': cfg['n'], 'switches': 0, 'fired': {}, 'probes': {'lost_races': cfg['lost'], 'queue_ops': cfg['n']},
            'virtual_s': 0.0, 'nontrivial': True, 'outcome': {'ops': cfg['n']}}


def run_gap(case):
    from ..world import World
    cfg = case['cfg']
    violations = []
    world = World(case['seed'], clock={'mode': 'frozen'}, yield_clock=False)
    sim = world.sim
    try:
        dc = world.dc
        path = world.path('c')
        cache = dc.Cache(path, disk_min_file_size=cfg['mfs'])
        other = dc.Cache(path)
        for i in range(cfg['expired']):
            cache.push('stale-%d' % i, prefix=cfg['prefix'], expire=1)
        sim.advance(5)
        state = {'begins': 0, 'busy': False, 'pushed': []}

        def meanwhile(con, stmt):
            if state['busy'] or not stmt.startswith('BEGIN') or con.path != cache._con.path or getattr(con, '_verif_owner', None) == 'other':
                return
            state['begins'] += 1
            if state['begins'] == 2:      # the consumer's second look: the producer got in first
                state['busy'] = True
                try:
                    for j in range(cfg['pushes']):
                        state['pushed'].append(other.push('fresh-%d' % j, prefix=cfg['prefix'], retry=True))
                finally:
                    state['busy'] = False
        other._con._verif_owner = 'other'
        sim.on_stmt = meanwhile
        try:
            got = getattr(cache, cfg['call'])(prefix=cfg['prefix'], side=cfg['side'], retry=True)
        finally:
            sim.on_stmt = None
        want = (None, None)
        if state['pushed']:
            k = state['pushed'][0] if cfg['side'] == 'front' else state['pushed'][-1]
            want = (k, 'fresh-%d' % (0 if cfg['side'] == 'front' else cfg['pushes'] - 1))
        elif cfg['expired'] < 2:
            want = (None, None)
        if tuple(got) != want and state['pushed']:
            violations.append({'rule': 'C10/wrong-item-after-expired-run', 'sig': cfg['call'],
                               'detail': '%s(side=%r) removed %d expired item(s); %d item(s) pushed before its next look; it returned %r, the %s of the queue was %r'
                                         % (cfg['call'], cfg['side'], cfg['expired'], len(state['pushed']), tuple(got), cfg['side'], want)})
        other.close()
        cache.close()
    finally:
        world.close()
    digest = hashlib.sha256(json.dumps(case['cfg'], sort_keys=True).encode()).hexdigest()
    return {'violations': violations, 'digest': digest, 'steps': 6, 'switches': 0, 'fired': {}, 'probes': {'pushes_between_looks': 1, 'queue_ops': 6},
            'virtual_s': 0.0, 'nontrivial': True, 'outcome': {'ops': 6}}


def run_case(case):
    if case['cfg']['kind'] == 'gap':
        return run_gap(case)
    if case['cfg']['kind'] == 'race':
        return run_race(case)
    if case['cfg']['kind'] != 'seq':
        return run_conc(case)
    def on_step(cache, model, op, got, violations):
        # the key returned by push identifies that item: it is an ordinary key of the cache
        if op['op'] == 'push' and got[0] == 'ok' and model.pending is not None:
            it = model.pending[2]
            if it.rowid in model.rows:
                present = it.key in cache
                want = it.live(model.pending[1])
                if case['cfg'].get('disk') == 'json':
                    want = present      # under JSONDisk lookups encode the key, queue keys are stored as they are (14.3)
                if present != want:
                    violations.append({'rule': 'C10/pushed-key-not-addressable', 'sig': 'contains',
                                       'detail': 'push returned %r; `key in cache` is %s, expected %s' % (it.key, present, want)})

    violations, stats = seqcache.run_prog(case, PROPERTY, on_step=on_step)
    digest = hashlib.sha256(json.dumps([case['cfg'], case['prog']], sort_keys=True).encode()).hexdigest()
    nq = sum(1 for op in case['prog'] if op['op'] in ('push', 'pull', 'peek'))
    stats['probes']['queue_ops'] = nq
    if case['cfg'].get('disk') == 'json':
        stats['probes']['json_disk'] = 1
    prefixes = {op.get('prefix') for op in case['prog'] if op['op'] in ('push', 'pull', 'peek')}
    if {'a', 'a-5'} <= prefixes or {'a', 'a-b'} <= prefixes:
        stats['probes']['related_prefixes'] = 1
    return {'violations': violations, 'digest': digest, 'steps': stats['ops'], 'switches': 0, 'fired': {},
            'probes': stats['probes'], 'virtual_s': stats.get('virtual_s', 0.0), 'nontrivial': nq >= 3, 'outcome': {'ops': stats['ops']}}


def shrink_candidates(case):
    if case['cfg']['kind'] == 'seq':
        from .c03 import shrink_candidates as sc
        return sc(case)
    from ..runner import generic_candidates
    return generic_candidates(case)
