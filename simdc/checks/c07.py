"""C07 - a process killed at any instant leaves a usable, self-consistent
cache.  For each sampled workload the kill point is enumerated over the seam
events of the victim's operations (every statement, file create / write chunk /
close / remove, directory call); the thorough tier enumerates all of them, the
quick tier samples.  A second mode kills a real forked child with SIGKILL at a
seeded seam step or SQLite VM tick.  DESIGN.md section 9, C07."""
import collections
import copy
import json
import os
import pickle
import random
import signal
import sqlite3
import sys

from .. import conc, kvmodel, lin, vals
from ..audit import audit, check_messages
from ..ops import fp, run_op
from . import c05

PROPERTY = 'C07'
LEVEL = 'fault_enumeration'
QUICK_S = 40
THOROUGH_S = 600
BATCH = 2
MIN_RUNS = 8
RULE = ('one evaluation = one simulated run of a sampled workload (victim process with 1-6 mutating operations on Cache / Index / '
        'Deque incl. transaction blocks and bulk removals over >100 rows, or the very first open of a fresh directory as Cache / FanoutCache / Deque / Index followed by one write; 0-2 survivor processes) with the victim killed at ONE '
        'seam event; for each sampled workload the kill point is enumerated over the seam events of the victim (all of them in the '
        'thorough tier, a sample in the quick tier; a torn prefix of the chunk being written is left behind); afterwards survivors '
        'finish and a fresh process opens the directory. Plus real-SIGKILL child runs. Non-trivial = the kill fired inside an '
        'operation; distinct = SHA-256 of the seam event log')
RULE += ' ' + 'One cache workload in seven uses a Disk subclass that names each value file after its key (a refusal with FileExistsError counts as a no-op).'
RULE += ' ' + 'One deque scenario in eight works on a deque of 1001-1100 items (reverse / rotate / extend); after a kill inside reverse a later process reverses twice and must get the same deque.'
RULE += ' ' + 'One cache workload in eight starts with 300-400 KB of value files without rows (debris of earlier kills) under a 300 KB size limit.'
RULE += ' ' + "The first-open scenario compares the shards' size limits after the kill."
RULE += ' ' + 'One deque scenario in seven works on 4100-4500 items kept in files.'
RULE += ' ' + 'A third of the first-open scenarios start from a directory configured earlier and opened without arguments.'
ASSUMPTIONS = ['in-process kill: after the kill instant no task of the victim has any further effect and its descriptors are closed '
               '(what the OS does for SIGKILL); power loss is not modelled',
               'real-kill mode: single victim, kill instant derived from the seed (seam step or progress-handler tick)']
PROBES = ('kill_mid_file_write', 'kill_torn_chunk', 'kill_in_txn', 'kill_between_commit_and_unlink', 'realkill', 'kill_inside_first_open',
          'debris_unknown_file', 'bulk_partial', 'keynamed_refusal', 'deque_over_1000', 'debris_of_earlier_kills', 'deque_over_4096_files', 'reopen_of_configured_directory')
TECHNIQUE = 'deterministic simulation with crash injection: kill point enumerated over all seam events of sampled workloads; post-crash state checked by linearizability with the interrupted operation pending'
LEVEL_TEXT = ('fault enumeration: workloads are sampled by seed, but within a workload every kill point at seam granularity is run '
              '(thorough tier), so for that workload the crash-point quantifier is decided completely at that granularity; the '
              'post-crash directory is checked through a fresh handle against the model (completed operations present, interrupted one '
              'all-or-nothing, values complete, only permitted debris, writable).')
LEVEL_NOTE = ('trusted: SQLite crash atomicity inside a statement (covered only by the real-SIGKILL mode, which kills between VM '
              'instructions), tmpfs; kill granularity = seam events, plus VM ticks in real-kill mode')

KEYS = ['a', 'b']


def gen_case(seed, tier):
    rng = random.Random('%s/c07' % seed)
    r = rng.random()
    scen = 'lin' if r < 0.50 else ('deque' if r < 0.62 else ('bulk' if r < 0.71 else ('evict' if r < 0.80 else ('init' if r < 0.90 else 'realkill'))))
    mfs = rng.choice((0, 8, 8, 2 ** 15))
    big_n = {0: 12, 8: 40, 2 ** 15: 2 ** 15 + 5}[mfs]
    cfg = {'scen': scen, 'settings': {'disk_min_file_size': mfs}, 'topology': 'procs', 'sched': {'kind': 'uniform'},
           'clock': {'mode': 'frozen'}, 'yield_clock': False, 'dircollide': rng.random() < 0.5,
           'post_stmt_yield': True, 'timeout': 60}
    if scen == 'init':
        # the very first open of a directory (schema, settings, pragmas, shard directories) killed at any point, next to a
        # second process that opens the same directory at the same time
        cfg['kind'] = rng.choice(('cache', 'cache', 'fanout', 'deque', 'index'))
        cfg['shards'] = rng.choice((1, 2, 3))
        cfg['survivor'] = rng.random() < 0.5
        cfg['preexisting'] = rng.random() < 0.35
        cfg['settings'] = {'disk_min_file_size': mfs, 'eviction_policy': rng.choice(('least-recently-stored', 'least-recently-used',
                                                                                      'least-frequently-used', 'none')),
                           'tag_index': rng.choice((0, 1)), 'statistics': rng.choice((0, 1))}
        cfg['sched'] = rng.choice(({'kind': 'uniform'}, {'kind': 'sticky', 'p': 0.8}))
        return {'seed': seed, 'cfg': cfg, 'progs': {'v': [{'op': 'open'}, {'op': 'write', 'v': {'big': ['bytes', big_n, 'first']}}]},
                'faults': []}
    if scen == 'lin':
        target = rng.choice(('cache', 'cache', 'index'))
        cfg['target'] = target
        progs = {'v': gen_victim(rng, target, big_n)}
        for si in range(rng.choice((0, 1, 1, 2))):
            progs['s%d' % si] = [gen_plain(rng, 1 + si, j, big_n, target) for j in range(rng.randint(1, 4))]
        if target == 'cache':
            cfg['settings']['eviction_policy'] = rng.choice(('least-recently-stored', 'least-recently-used', 'none'))
            cfg['settings']['statistics'] = rng.choice((0, 1))
            if rng.random() < 0.12:
                # writers killed earlier have left value files without rows (permitted debris), about as much as the size limit:
                # they are no items and count for nothing
                cfg['old_debris'] = rng.choice((3, 4))
                cfg['settings']['size_limit'] = 300000
                cfg['settings']['eviction_policy'] = rng.choice(('least-recently-stored', 'least-recently-used'))
            elif rng.random() < 0.15:
                # a deployment whose Disk subclass names each value file after its key
                cfg['disk'] = 'keynamed'
                # (a refusal inside a transaction block would have to be modelled per statement: the blocks are left to the stock Disk)
                for name in progs:
                    progs[name] = [op for op in progs[name] if op.get('op') != 'txn'] or [{'op': 'set', 'k': 'a', 'v': c05.uniq_value(rng, 9, 0, big_n), 'retry': True}]
    elif scen == 'deque':
        cfg['target'] = 'deque'
        cfg['maxlen'] = rng.choice((None, None, 2, 3))
        prog = []
        for j in range(rng.randint(2, 7)):
            name = rng.choice(('append', 'append', 'appendleft', 'dpop', 'dpopleft', 'dextend', 'dextendleft', 'diadd', 'drotate',
                               'dreverse', 'dclear', 'dmaxlen', 'dsetitem', 'ddelitem'))
            op = {'op': name}
            if name.startswith('append') or name == 'dsetitem':
                op['v'] = c05.uniq_value(rng, 0, j, big_n)
            if name in ('dextend', 'dextendleft', 'diadd'):
                op['vs'] = [c05.uniq_value(rng, 0, j * 10 + b, big_n) for b in range(rng.randint(2, 4))]
            if name == 'drotate':
                op['n'] = rng.choice((1, -1, 2, -2, 3))
            if name in ('dsetitem', 'ddelitem'):
                op['i'] = rng.choice((0, -1, 1))
            if name == 'dmaxlen':
                op['n'] = rng.choice((1, 2, 3))
            prog.append(op)
        progs = {'v': prog}
        if seed % 7 == 4:
            # a deque of several thousand items kept in files, so that one transaction replaces / removes more than 4096 value
            # files (thresholds a batching scheme might have)
            cfg['maxlen'] = None
            cfg['deque_prefill'] = rng.choice((4100, 4500))
            cfg['settings']['disk_min_file_size'] = 0
            cfg['deque_prefill_files'] = True
            cfg['step_cap'] = 900000
            progs = {'v': [rng.choice(({'op': 'dreverse'}, {'op': 'drotate', 'n': -1}, {'op': 'drotate', 'n': 4200}))]}      # (clear() goes in batches by design)
        elif rng.random() < 0.12:
            # a deque of more than a thousand items (beyond any in-memory shortcut or page size) reversed / rotated / extended
            cfg['maxlen'] = None
            cfg['deque_prefill'] = rng.choice((1001, 1030, 1100))
            progs = {'v': [rng.choice(({'op': 'dreverse'}, {'op': 'dreverse'}, {'op': 'drotate', 'n': rng.choice((1, -2, 500))},
                                       {'op': 'dextend', 'vs': [c05.uniq_value(rng, 0, b, big_n) for b in range(3)]}))]}
    elif scen == 'bulk':
        cfg['target'] = 'cache'
        cfg['bulk_n'] = rng.choice((120, 230, 250))
        cfg['bulk_file'] = rng.random() < 0.5
        progs = {'v': [{'op': rng.choice(('clear', 'clear', 'evict', 'expire'))}]}
        if progs['v'][0]['op'] == 'evict':
            progs['v'][0]['tag'] = 't1'
        cfg['clock'] = {'mode': 'frozen'}
    elif scen == 'evict':
        # a write that evicts file-backed items by policy (cache at its size limit), killed at any point
        cfg['target'] = 'cache'
        cfg['settings'] = {'disk_min_file_size': 64, 'size_limit': 90000, 'cull_limit': rng.choice((1, 2, 3)),
                           'eviction_policy': rng.choice(('least-recently-stored', 'least-recently-used', 'least-frequently-used'))}
        cfg['fill'] = rng.randint(5, 9)
        cfg['expired'] = rng.choice((0, 0, 1, 2))
        name = rng.choice(('set', 'set', 'add', 'incr', 'push'))
        op = {'op': name, 'retry': True}
        if name in ('set', 'add'):
            op['k'] = 'new'
            op['v'] = {'big': ['bytes', rng.choice((3000, 9000)), 'new']}
        elif name == 'incr':
            op['k'] = 'ctr'
        else:
            op['v'] = {'big': ['bytes', 3000, 'pushed']}
            op['prefix'] = 'q'
        progs = {'v': [op]}
    else:
        cfg['target'] = 'cache'
        cfg['rk_mode'] = rng.choice(('seam', 'seam', 'tick'))
        progs = {'v': [op for op in gen_victim(rng, 'cache', min(big_n, 64), allow_txn=True) if not _uses_queue(op)] or [{'op': 'set', 'k': 'a', 'v': 1, 'retry': True}]}
    return {'seed': seed, 'cfg': cfg, 'progs': progs, 'faults': []}


def gen_plain(rng, ci, j, big_n, target):
    k = rng.choice(KEYS)
    if target == 'index':
        name = rng.choice(('setitem', 'setitem', 'getitem', 'delitem', 'ipop', 'setdefault', 'contains'))
        op = {'op': name, 'k': k}
        if name in ('setitem', 'setdefault'):
            op['v'] = c05.uniq_value(rng, ci, j, big_n)
        if name == 'ipop':
            op['default'] = 'dflt'
        return op
    if rng.random() < 0.2:
        return {'op': rng.choice(('incr', 'decr')), 'k': 'n', 'delta': rng.choice((1, 2)), 'retry': True}
    if rng.random() < 0.15:
        if rng.random() < 0.5:
            return {'op': 'push', 'v': c05.uniq_value(rng, ci, j, big_n), 'prefix': 'q', 'side': rng.choice(('back', 'front')), 'retry': True}
        return {'op': rng.choice(('pull', 'pull', 'peek')), 'prefix': 'q', 'side': rng.choice(('back', 'front')), 'retry': True}
    name = rng.choice(('set', 'set', 'set', 'add', 'pop', 'delete', 'touch', 'get', 'contains'))
    op = {'op': name, 'k': k}
    if name in ('set', 'add'):
        op['v'] = c05.uniq_value(rng, ci, j, big_n)
    if name in ('set', 'add', 'pop', 'delete', 'touch'):
        op['retry'] = True
    if name in ('get', 'pop') and rng.random() < 0.5:
        op['default'] = 'dflt'
    return op


def gen_victim(rng, target, big_n, allow_txn=True):
    prog = []
    for j in range(rng.randint(1, 6)):
        if allow_txn and rng.random() < 0.25:
            body = [gen_plain(rng, 0, j * 10 + b, big_n, target) for b in range(rng.randint(1, 3))]
            prog.append({'op': 'txn', 'body': body, **({'retry': True} if target == 'cache' else {})})
        # clear() is documented as an iterative, non-atomic bulk removal ("concurrent writes may occur between
        # iterations"); it is exercised by the 'bulk' scenario, not as an atomic step of the linearizability scenario
        else:
            prog.append(gen_plain(rng, 0, j, big_n, target))
    return prog


# ---------------------------------------------------------------------------

def post_mortem(world, case, out, violations, probes):
    """Fresh process opens the directory: observations for the oracle."""
    dc = world.dc
    cfg = case['cfg']
    path = world.path('c')
    fresh = dc.Cache(path, timeout=0.05, **({'disk': conc.keynamed_disk(dc)} if cfg.get('disk') == 'keynamed' else {}))
    first = check_messages(fresh)
    out['check1'] = first
    bad = [m for m in first if not (m.startswith('unknown file') or m.startswith('empty directory'))]
    if bad:
        violations.append({'rule': 'C07/debris-not-permitted', 'sig': ','.join(sorted({m.split(':')[0] for m in bad})),
                           'detail': str(bad[:3])})
    if any(m.startswith('unknown file') for m in first):
        probes['debris_unknown_file'] = 1
    return fresh


def finish_checks(fresh, violations):
    # nothing left behind that stops others from writing
    try:
        ok = fresh.set('__probe__', 1)
        fresh.delete('__probe__')
        if ok is not True:
            violations.append({'rule': 'C07/not-writable', 'sig': 'set-returned-%r' % (ok,), 'detail': ''})
    except Exception as exc:  # noqa
        violations.append({'rule': 'C07/not-writable', 'sig': type(exc).__name__, 'detail': str(exc)[:100]})
        return
    try:
        fixed = check_messages(fresh, fix=True)
        second = check_messages(fresh)
    except Exception as exc:  # noqa
        violations.append({'rule': 'C07/check-raises', 'sig': type(exc).__name__, 'detail': str(exc)[:100]})
        return
    if second:
        violations.append({'rule': 'C07/repair-incomplete', 'sig': ','.join(sorted({m.split(':')[0] for m in second})),
                           'detail': 'after check(fix=True) a second check() reports %s' % (second[:3],)})
    problems, empties, info = audit(fresh.directory)
    if problems:
        violations.append({'rule': 'C07/audit-after-repair', 'sig': ','.join(sorted({p[0] for p in problems})),
                           'detail': str(problems[:3])})


def classify_kill(sim, probes):
    for f in sim.faults:
        if f.get('f') == 'kill' and f.get('done'):
            kind, detail = f.get('where', [None, None])
            if kind == 'sql' and detail and not str(detail).startswith('BEGIN'):
                probes['kill_in_txn'] = 1
            if kind in ('fs:remove', 'fs:removedirs'):
                probes['kill_between_commit_and_unlink'] = 1


def combo_apply(state, op, depth=0):
    """Key-value items plus queues (push/pull/peek) in one sequential model."""
    name = op['op']
    kv, q = state
    if name in ('push', 'pull', 'peek'):
        from .c10 import q_apply
        q2, res = q_apply(q, op)
        return (kv, q2), res
    if name == 'txn':
        return kvmodel._txn(state, op, depth, apply_fn=combo_apply)
    kv2, res = kvmodel.apply(kv, op, depth)
    return (kv2, q), res


def run_lin(case):
    probes = {}
    target_kind = case['cfg']['target']

    def inspect(world, main, targets, out):
        sim = world.sim
        violations = out['violations']
        classify_kill(sim, probes)
        fresh = post_mortem(world, case, out, violations, probes)
        hist = out['history']
        keys = []
        for h in hist:
            for k in _keys_in(h['op']):
                if k not in keys:
                    keys.append(k)
        for k in keys:
            op = {'op': 'get', 'k': k, 'default': 'absent'}
            rec = {'task': 'final', 'i': 0, 'op': op, 'inv': sim.stamp()}
            rec['res'] = run_op(fresh, op)
            rec['ret'] = sim.stamp()
            hist.append(rec)
            if rec['res'][0] != 'ok':
                violations.append({'rule': 'C07/present-key-unreadable', 'sig': rec['res'][1],
                                   'detail': 'key %s: %s' % (json.dumps(k), rec['res'])})
        if target_kind == 'cache' and any(_uses_queue(h['op']) for h in hist):
            n = 0
            while n < 50:
                op = {'op': 'pull', 'prefix': 'q', 'side': 'front', 'retry': True}
                rec = {'task': 'final', 'i': 0, 'op': op, 'inv': sim.stamp()}
                rec['res'] = run_op(fresh, op)
                rec['ret'] = sim.stamp()
                hist.append(rec)
                n += 1
                if rec['res'] == ('ok', 't(None,None)') or rec['res'][0] != 'ok':
                    break
        finish_checks(fresh, violations)
        fresh.close()

    out = conc.run_and_inspect(case, inspect, prepare=_debris_prepare(case['cfg'], probes))
    violations = out['violations']
    base = {'digest': out.get('digest'), 'steps': out.get('steps', 0), 'switches': out.get('switches', 0),
            'fired': out.get('fired', {}), 'virtual_s': out.get('virtual_s', 0.0), 'picks': out.get('picks')}
    if conc.incident_violations(out, PROPERTY, violations):
        return dict(base, violations=violations, probes=out.get('probes', {}), nontrivial=True)
    for name, msg in conc.unexpected_exceptions(out):
        violations.append({'rule': 'C07/unexpected-exception', 'sig': msg.split(':')[0], 'detail': '%s: %s' % (name, msg)})
    hist = out['history']
    refused = []
    if case['cfg'].get('disk') == 'keynamed':
        # value files named after the key: a name that is taken (the key's present value, what a dead writer left) is never
        # written over - the call fails with FileExistsError before it has changed anything
        refused = [h for h in hist if h['res'] and h['res'][0] == 'exc' and h['res'][1] == 'FileExistsError']
        if refused:
            probes['keynamed_refusal'] = 1
    for h in hist:
        r = h['res']
        if r and r[0] == 'exc' and r[1] not in ('KeyError', 'TypeError') and h not in refused:
            violations.append({'rule': 'C07/unexpected-exception', 'sig': r[1],
                               'detail': '%s op %s -> %s' % (h['task'], json.dumps(h['op'])[:150], r)})
    ops = [h for h in hist if h not in refused]
    lin.mark_tolerated_misses(ops, miss=kvmodel.is_miss)
    if target_kind == 'index':
        for h in ops:
            h['tolerate'] = False
    ops = lin.expand_setdefault(ops)
    # a killed transaction block is all-or-nothing: as a pending op it may apply fully or not at all
    try:
        ok, info = lin.check(ops, (frozenset(), ()), combo_apply)
    except OverflowError:
        ok, info = True, {}
        probes['lin_overflow'] = 1
    if not ok:
        violations.append({'rule': 'C07/post-crash-state', 'sig': 'not-explained',
                           'detail': 'completed operations / all-or-nothing of the interrupted one do not explain what the fresh process reads; stuck at %s'
                                     % (info.get('stuck_ops'),)})
    pr = dict(out['probes'])
    pr.update(probes)
    return dict(base, violations=violations, probes=pr, nontrivial=bool(out['fired'].get('kill')),
                outcome={'ops': len(hist), 'check1': out.get('check1')})


def _debris_prepare(cfg, probes=None):
    n = cfg.get('old_debris')
    if not n:
        return None

    def prepare(world, main):
        for i in range(n):
            d = os.path.join(main.directory, 'de', '%02x' % i)
            os.makedirs(d, exist_ok=True)
            with open(os.path.join(d, '%028x.val' % (i + 1)), 'wb') as fh:
                fh.write(b'D' * 100000)
        if probes is not None:
            probes['debris_of_earlier_kills'] = 1
    return prepare


def _uses_queue(op):
    if op.get('op') == 'txn':
        return any(_uses_queue(sub) for sub in op['body'])
    return op.get('op') in ('push', 'pull', 'peek')


def _keys_in(op):
    if op.get('op') == 'txn':
        for sub in op['body']:
            for k in _keys_in(sub):
                yield k
    elif 'k' in op:
        yield op['k']


def deque_model(prog, maxlen, init=0, as_bytes=False):
    d = collections.deque((fp(b'%d' % i if as_bytes else i) for i in range(init)), maxlen=maxlen)
    for op in prog:
        name = op['op']
        try:
            if name == 'append':
                d.append(fp(vals.dec(op['v'])))
            elif name == 'appendleft':
                d.appendleft(fp(vals.dec(op['v'])))
            elif name == 'dpop':
                d.pop()
            elif name == 'dpopleft':
                d.popleft()
            elif name in ('dextend', 'diadd'):
                d.extend(fp(vals.dec(x)) for x in op['vs'])
            elif name == 'dextendleft':
                d.extendleft(fp(vals.dec(x)) for x in op['vs'])
            elif name == 'drotate':
                d.rotate(op['n'])
            elif name == 'dreverse':
                d.reverse()
            elif name == 'dclear':
                d.clear()
            elif name == 'dmaxlen':
                d = collections.deque(d, maxlen=op['n'])
            elif name == 'dsetitem':
                d[op['i']] = fp(vals.dec(op['v']))
            elif name == 'ddelitem':
                del d[op['i']]
        except IndexError:
            pass
    return list(d)


def _final_maxlen(prog, maxlen):
    for op in prog:
        if op['op'] == 'dmaxlen':
            maxlen = op['n']
    return maxlen


def run_deque(case):
    probes = {}

    def inspect(world, main, targets, out):
        violations = out['violations']
        classify_kill(world.sim, probes)
        fresh = post_mortem(world, case, out, violations, probes)
        dq = world.dc.Deque.fromcache(fresh, maxlen=None)
        try:
            out['final'] = [fp(x) for x in dq]
        except Exception as exc:  # noqa
            violations.append({'rule': 'C07/present-key-unreadable', 'sig': type(exc).__name__, 'detail': str(exc)[:100]})
            out['final'] = None
        if out['final'] is not None and any(op['op'] == 'dreverse' for op in case['progs']['v']) and not case['cfg'].get('deque_prefill_files'):
            # whatever the dead process left must not get into a later reversal: twice reversed is the same deque
            try:
                dq.reverse()
                once = [fp(x) for x in dq]
                dq.reverse()
                twice = [fp(x) for x in dq]
                if once != out['final'][::-1] or twice != out['final']:
                    violations.append({'rule': 'C07/later-operation-affected', 'sig': 'reverse-after-kill',
                                       'detail': 'a later process reverses the deque twice: %d items, then %d, then %d' % (
                                           len(out['final']), len(once), len(twice))})
            except Exception as exc:  # noqa
                violations.append({'rule': 'C07/later-operation-affected', 'sig': type(exc).__name__, 'detail': str(exc)[:100]})
        finish_checks(fresh, violations)
        fresh.close()

    npre = case['cfg'].get('deque_prefill', 0)
    prepare = None
    if npre:
        def prepare(world, main):
            if case['cfg'].get('deque_prefill_files'):
                main.cache.reset('disk_min_file_size', 0)
                main.extend(b'%d' % i for i in range(npre))
                probes['deque_over_4096_files'] = 1
            else:
                main.extend(range(npre))
        probes['deque_over_1000'] = 1
    out = conc.run_and_inspect(case, inspect, prepare=prepare)
    violations = out['violations']
    base = {'digest': out.get('digest'), 'steps': out.get('steps', 0), 'switches': out.get('switches', 0),
            'fired': out.get('fired', {}), 'virtual_s': out.get('virtual_s', 0.0), 'picks': out.get('picks')}
    if conc.incident_violations(out, PROPERTY, violations):
        return dict(base, violations=violations, probes=out.get('probes', {}), nontrivial=True)
    for name, msg in conc.unexpected_exceptions(out):
        violations.append({'rule': 'C07/unexpected-exception', 'sig': msg.split(':')[0], 'detail': '%s: %s' % (name, msg)})
    prog = case['progs']['v']
    done = [h for h in out['history'] if h['ret'] is not None]
    pending = [h for h in out['history'] if h['ret'] is None]
    n = len(done)
    cands = [deque_model(prog[:n], case['cfg'].get('maxlen'), npre, bool(case['cfg'].get('deque_prefill_files')))]
    if pending:
        cands.append(deque_model(prog[:n + 1], case['cfg'].get('maxlen'), npre, bool(case['cfg'].get('deque_prefill_files'))))
    if out.get('final') is not None and out['final'] not in cands and pending:
        pop = pending[0]['op']
        if pop['op'] in ('dextend', 'dextendleft', 'diadd'):
            # a bulk insertion interrupted after some of its items: the items so far are there, the rest is not
            partial = [deque_model(prog[:n] + [dict(pop, vs=pop['vs'][:m])], case['cfg'].get('maxlen'), npre, bool(case['cfg'].get('deque_prefill_files'))) for m in range(1, len(pop['vs']))]
            if out['final'] in partial:
                violations.append({'rule': 'C07/post-crash-state', 'sig': 'bulk-insertion-partly-applied',
                                   'detail': '%s interrupted by the kill left %s; before %s, complete %s' % (pop['op'], out['final'], cands[0], cands[-1])})
                out['final'] = None
    if out.get('final') is not None and out['final'] not in cands:
        violations.append({'rule': 'C07/post-crash-state', 'sig': 'deque',
                           'detail': 'deque after the kill is %s; expected one of %s (completed ops, interrupted op all-or-nothing)'
                                     % (out['final'], cands)})
    pr = dict(out['probes'])
    pr.update(probes)
    return dict(base, violations=violations, probes=pr, nontrivial=bool(out['fired'].get('kill')),
                outcome={'final': out.get('final')})


def run_bulk(case):
    probes = {}
    cfg = case['cfg']
    n = cfg['bulk_n']

    def prepare(world, main):
        val = b'x' * (cfg['settings']['disk_min_file_size'] + 1) if cfg.get('bulk_file') and cfg['settings']['disk_min_file_size'] < 100 else 1
        for i in range(n):
            main.set(i, val, expire=1 if i % 2 else 2, tag='t1')
        world.sim.advance(10)

    def inspect(world, main, targets, out):
        violations = out['violations']
        classify_kill(world.sim, probes)
        fresh = post_mortem(world, case, out, violations, probes)
        out['left'] = sorted(fresh)
        finish_checks(fresh, violations)
        fresh.close()

    out = conc.run_and_inspect(case, inspect, prepare=prepare)
    violations = out['violations']
    base = {'digest': out.get('digest'), 'steps': out.get('steps', 0), 'switches': out.get('switches', 0),
            'fired': out.get('fired', {}), 'virtual_s': out.get('virtual_s', 0.0), 'picks': out.get('picks')}
    if conc.incident_violations(out, PROPERTY, violations):
        return dict(base, violations=violations, probes=out.get('probes', {}), nontrivial=True)
    left = out.get('left', [])
    removed = n - len(left)
    killed = bool(out['fired'].get('kill'))
    if killed:
        if removed % 100 != 0 and removed != n:
            violations.append({'rule': 'C07/bulk-removal-not-page-aligned', 'sig': case['progs']['v'][0]['op'],
                               'detail': '%d of %d items removed: a bulk removal is applied page by page (100 rows)' % (removed, n)})
        if 0 < removed < n:
            probes['bulk_partial'] = 1
    elif removed != n:
        violations.append({'rule': 'C07/bulk-removal-incomplete', 'sig': case['progs']['v'][0]['op'],
                           'detail': '%d of %d removed without a kill' % (removed, n)})
    pr = dict(out['probes'])
    pr.update(probes)
    return dict(base, violations=violations, probes=pr, nontrivial=killed, outcome={'removed': removed})


# ---------------------------------------------------------------------------
# real SIGKILL mode

def run_realkill(case):
    """Victim runs in a forked child over the real library with counting
    seams and kills itself with SIGKILL at step `kill_at`; the parent opens
    the directory afterwards and applies the sequential two-candidate oracle."""
    import shutil
    import tempfile
    import hashlib
    from ..world import SCRATCH_BASE
    cfg = case['cfg']
    prog = case['progs']['v']
    kill_at = case.get('kill_at')
    root = tempfile.mkdtemp(prefix='simdc-rk-%d-' % os.getpid(), dir=SCRATCH_BASE)
    violations = []
    probes = {}
    try:
        path = os.path.join(root, 'c')
        rfd, wfd = os.pipe()
        pid = os.fork()
        if pid == 0:
            # child: plain library, counting wrapper on connection.execute via progress handler or seam counter
            try:
                os.close(rfd)
                _child(path, cfg, prog, kill_at, wfd, case['seed'])
            finally:
                os._exit(0)
        os.close(wfd)
        data = b''
        while True:
            chunk = os.read(rfd, 65536)
            if not chunk:
                break
            data += chunk
        os.close(rfd)
        _, status = os.waitpid(pid, 0)
        killed = os.WIFSIGNALED(status) and os.WTERMSIG(status) == signal.SIGKILL
        journal = [json.loads(line) for line in data.decode().splitlines() if line.strip()]
        total = [j for j in journal if j.get('total') is not None]
        done = sum(1 for j in journal if j.get('ev') == 'ret')
        started = sum(1 for j in journal if j.get('ev') == 'inv')
        if killed:
            probes['realkill'] = 1
        # parent: fresh open with the real library (seams inactive: no Sim is active here)
        from .. import seams
        dc = seams.load_diskcache()
        fresh = dc.Cache(path, timeout=0.05)
        first = check_messages(fresh)
        bad = [m for m in first if not (m.startswith('unknown file') or m.startswith('empty directory'))]
        if bad:
            violations.append({'rule': 'C07/debris-not-permitted', 'sig': 'real-kill:' + ','.join(sorted({m.split(':')[0] for m in bad})),
                               'detail': str(bad[:3])})
        state0 = frozenset()
        cands = []
        st = state0
        for op in prog[:done]:
            st, _ = kvmodel.apply(st, op)
        cands.append(st)
        if started > done:
            st2, _ = kvmodel.apply(st, prog[done])
            cands.append(st2)
        keys = []
        for op in prog:
            for k in _keys_in(op):
                if k not in keys:
                    keys.append(k)
        got = []
        for k in keys:
            r = run_op(fresh, {'op': 'get', 'k': k, 'default': 'absent'})
            if r[0] != 'ok':
                violations.append({'rule': 'C07/present-key-unreadable', 'sig': 'real-kill:' + r[1], 'detail': json.dumps(k)})
            elif r[1] != fp('absent'):
                got.append((kvmodel.kid(k), r[1]))
        if frozenset(got) not in cands and not violations:
            violations.append({'rule': 'C07/post-crash-state', 'sig': 'real-kill',
                               'detail': 'after SIGKILL at step %s (op %d of %d in flight) the directory holds %s; expected one of %s'
                                         % (kill_at, done, len(prog), sorted(got), [sorted(c) for c in cands])})
        finish_checks(fresh, violations)
        fresh.close()
        digest = hashlib.sha256(json.dumps([case['cfg'], prog, kill_at], sort_keys=True).encode()).hexdigest()
        return {'violations': violations, 'digest': digest, 'steps': total[0]['total'] if total else (kill_at or 0), 'switches': 0,
                'fired': {'realkill': 1} if killed else {}, 'probes': probes, 'virtual_s': 0.0, 'nontrivial': killed,
                'outcome': {'killed': killed, 'ops_done': done, 'total_steps': total[0]['total'] if total else None}}
    finally:
        shutil.rmtree(root, ignore_errors=True)


def _child(path, cfg, prog, kill_at, wfd, seed):
    """Runs in the forked child.  Counts seam steps (statement / file calls)
    or SQLite VM ticks and SIGKILLs itself at step kill_at."""
    from .. import seams
    from ..kernel import Sim
    dc = seams.install()
    core = sys.modules['diskcache.core']
    counter = {'n': 0}
    mode = cfg.get('rk_mode', 'seam')

    def step():
        counter['n'] += 1
        if kill_at is not None and counter['n'] == kill_at:
            os.kill(os.getpid(), signal.SIGKILL)

    class CountingSim(Sim):
        def seam(self, kind, detail=None):
            step()

    # a Sim only to give deterministic file names; seams count instead of scheduling
    sim = CountingSim(seed, clock={'mode': 'frozen'})
    seams.activate(sim, os.path.dirname(path))

    class FakeTask:
        pass

    cache = dc.Cache(path, **cfg['settings'])
    if mode == 'tick':
        real = cache._con.real if hasattr(cache._con, 'real') else cache._con
        real.set_progress_handler(lambda: (step(), 0)[1], 1)
    else:
        # make seam calls count: pretend a task is current
        from ..kernel import Task, Proc
        t = Task(sim, 'victim', sim.harness_proc, None, 1)
        t.state = 'runnable'
        sim.tasks.append(t)
        sim.current = t
        sim._switch = lambda task: None
    out = os.fdopen(wfd, 'w')
    for i, op in enumerate(prog):
        out.write(json.dumps({'ev': 'inv', 'i': i}) + '\n')
        out.flush()
        run_op(cache, op)
        out.write(json.dumps({'ev': 'ret', 'i': i}) + '\n')
        out.flush()
    out.write(json.dumps({'total': counter['n']}) + '\n')
    out.flush()


# ---------------------------------------------------------------------------

def _evict_prepare(cfg):
    def prepare(world, main):
        main.reset('cull_limit', 0)
        for i in range(cfg['fill']):
            main.set('f%d' % i, b'%d' % i * 9000, expire=(1 if i < cfg.get('expired', 0) else None))
            world.sim.advance(0.5)
        main.reset('cull_limit', cfg['settings']['cull_limit'])
        world.sim.advance(5)
    return prepare


def run_evict(case):
    probes = {}
    cfg = case['cfg']

    def inspect(world, main, targets, out):
        violations = out['violations']
        classify_kill(world.sim, probes)
        fresh = post_mortem(world, case, out, violations, probes)
        present = []
        for k in sorted(fresh, key=repr):
            try:
                if k not in fresh:
                    present.append(repr(k) + ':expired')     # physically there, expired: no lookup sees it
                    continue
                v = fresh.get(k, default=None)
                if v is None:
                    violations.append({'rule': 'C07/present-key-unreadable', 'sig': 'evict-scenario',
                                       'detail': 'key %r is reported by iteration but get() finds no value' % (k,)})
                present.append(repr(k))
            except Exception as exc:  # noqa
                violations.append({'rule': 'C07/present-key-unreadable', 'sig': 'evict-scenario:' + type(exc).__name__, 'detail': repr(k)})
        out['present'] = present
        finish_checks(fresh, violations)
        fresh.close()

    out = conc.run_and_inspect(case, inspect, prepare=_evict_prepare(cfg))
    violations = out['violations']
    base = {'digest': out.get('digest'), 'steps': out.get('steps', 0), 'switches': out.get('switches', 0),
            'fired': out.get('fired', {}), 'virtual_s': out.get('virtual_s', 0.0), 'picks': out.get('picks')}
    if conc.incident_violations(out, PROPERTY, violations):
        return dict(base, violations=violations, probes=out.get('probes', {}), nontrivial=True)
    for name, msg in conc.unexpected_exceptions(out):
        violations.append({'rule': 'C07/unexpected-exception', 'sig': msg.split(':')[0], 'detail': '%s: %s' % (name, msg)})
    pr = dict(out['probes'])
    pr.update(probes)
    killed = bool(out['fired'].get('kill'))
    return dict(base, violations=violations, probes=pr, nontrivial=killed, outcome={'present': out.get('present')},
                present=out.get('present'))


def run_init(case):
    """First open of a fresh directory by the victim (then one write), optionally next to a second process doing the same."""
    from ..world import World
    from ..kernel import SimIncident, Killed, Aborted
    cfg = case['cfg']
    violations = []
    probes = {}
    world = World(case['seed'], sched=cfg['sched'], clock=cfg['clock'], step_cap=60000, yield_clock=False,
                  post_stmt_yield=cfg.get('post_stmt_yield', True))
    sim = world.sim
    try:
        dc = world.dc
        path = world.path('c')
        kind = cfg['kind']
        value = vals.dec(case['progs']['v'][1]['v'])
        marks = {}

        stored_before = None
        if cfg.get('preexisting') and kind == 'cache':
            # not the first open: the directory exists, configured by whoever made it; the victim (and everybody after it) opens
            # it without arguments - what was stored stays stored, however far the victim's open gets
            first = dc.Cache(path, size_limit=2 ** 26, cull_limit=0, eviction_policy='none', statistics=1, disk_min_file_size=cfg['settings']['disk_min_file_size'])
            first.set('configured', 1)
            stored_before = {k: getattr(first, k) for k in ('size_limit', 'cull_limit', 'eviction_policy', 'statistics', 'disk_min_file_size')}
            first.close()
            probes['reopen_of_configured_directory'] = 1

        def make(timeout=60):
            if kind == 'cache' and stored_before is not None:
                return dc.Cache(path, timeout=timeout)
            if kind == 'cache':
                return dc.Cache(path, timeout=timeout, **cfg['settings'])
            if kind == 'fanout':
                return dc.FanoutCache(path, shards=cfg['shards'], timeout=timeout, **cfg['settings'])
            if kind == 'deque':
                return dc.Deque(directory=path)
            return dc.Index(path)

        def write(t, who):
            if kind == 'deque':
                t.append(value)
            elif kind == 'index':
                t[who] = value
            else:
                t.set(who, value, retry=True)

        def client(who):
            def fn():
                task = sim.current
                task.op, task.op_seams = 0, 0
                t = make()
                marks[who + ':opened'] = task.op_seams
                task.op, task.op_seams = 1, 0
                write(t, who)
                marks[who + ':written'] = task.op_seams
                task.op = -1
                return True
            return fn

        sim.faults = [dict(f) for f in case.get('faults', [])]
        tasks = {'v': sim.spawn('v', 'pv', client('v'))}
        if cfg.get('survivor'):
            tasks['s'] = sim.spawn('s', 'ps', client('s'))
        incident = None
        try:
            sim.run()
        except SimIncident as inc:
            incident = inc
        if incident is not None:
            if incident.kind in ('stepcap', 'deadlock'):
                violations.append({'rule': 'C07/no-progress', 'sig': incident.kind, 'detail': str(incident)[:200]})
            else:
                raise incident
        classify_kill(sim, probes)
        killed = bool(sim.fired.get('kill'))
        for name, t in tasks.items():
            if t.exc is not None and not isinstance(t.exc, (Killed, Aborted)):
                violations.append({'rule': 'C07/survivor-failed' if name == 's' or not killed else 'C07/unexpected-exception',
                                   'sig': type(t.exc).__name__, 'detail': '%s: %s' % (name, str(t.exc)[:160])})
        if not violations:
            # a later process opens the directory, reads what was acknowledged, writes, checks
            try:
                fresh = make(timeout=0.05)
            except Exception as exc:  # noqa
                violations.append({'rule': 'C07/cannot-open', 'sig': type(exc).__name__,
                                   'detail': 'opening the directory after the kill raises %s: %s' % (type(exc).__name__, str(exc)[:120])})
                fresh = None
            if fresh is not None:
                shards = list(fresh._shards) if kind == 'fanout' else [fresh.cache if kind in ('deque', 'index') else fresh]
                if stored_before is not None:
                    now_stored = {k: getattr(fresh, k) for k in stored_before}
                    if now_stored != stored_before:
                        violations.append({'rule': 'C07/stored-settings-lost', 'sig': 'kill-during-reopen',
                                           'detail': 'the directory was configured %r; after a process was killed while opening it (no arguments) the next open finds %r' % (stored_before, now_stored)})
                if kind == 'fanout' and 'size_limit' not in cfg['settings']:
                    # however far the first open got: the total size limit (1 GiB by default) is divided among all shards
                    limits = [sh.size_limit for sh in shards]
                    if any(x != 2 ** 30 / cfg['shards'] for x in limits):
                        violations.append({'rule': 'C07/size-limit-not-divided', 'sig': 'after-interrupted-first-open',
                                           'detail': 'shard size limits %s after the interrupted first open, expected %s each' % (limits, 2 ** 30 / cfg['shards'])})
                for who in ('v', 's'):
                    if who + ':written' not in marks:
                        continue
                    try:
                        got = list(fresh) if kind == 'deque' else fresh[who]
                        ok = (value in got) if kind == 'deque' else got == value
                    except Exception as exc:  # noqa
                        ok = False
                        got = type(exc).__name__
                    if not ok:
                        violations.append({'rule': 'C07/completed-operation-lost', 'sig': kind,
                                           'detail': 'the write %s completed is not there: %s' % (who, fp(got) if not isinstance(got, str) else got)})
                for sh in shards:
                    try:
                        first = check_messages(sh)
                    except Exception as exc:  # noqa
                        violations.append({'rule': 'C07/unusable-after-kill', 'sig': 'check:' + type(exc).__name__,
                                           'detail': 'check() on the directory left by the kill raises %s: %s' % (type(exc).__name__, str(exc)[:120])})
                        break
                    bad = [m for m in first if not (m.startswith('unknown file') or m.startswith('empty directory'))]
                    if bad:
                        violations.append({'rule': 'C07/debris-not-permitted', 'sig': ','.join(sorted({m.split(':')[0] for m in bad})),
                                           'detail': str(bad[:3])})
                        break
                    if len(sh) != sum(1 for _ in sh):
                        violations.append({'rule': 'C07/debris-not-permitted', 'sig': 'len', 'detail': 'len() %d, %d keys' % (len(sh), sum(1 for _ in sh))})
                        break
                    finish_checks(sh, violations)
                    if violations:
                        break
                (fresh.cache if kind in ('deque', 'index') else fresh).close()
        res = {'violations': violations, 'digest': sim.digest(), 'steps': sim.step, 'switches': sim.switches, 'fired': dict(sim.fired),
               'probes': dict(sim.probes, **probes), 'virtual_s': sim.now - sim._t0, 'picks': sim.picks[:500],
               'nontrivial': killed, 'outcome': {'marks': marks},
               'victim_seams': [marks.get('v:opened', 0), marks.get('v:written', 0)]}
        if killed and 'v:opened' not in marks:
            res['probes']['kill_inside_first_open'] = 1
    finally:
        world.close()
    return res


def run_case(case):
    scen = case['cfg']['scen']
    if scen == 'init':
        return run_init(case)
    if scen == 'evict':
        r = run_evict(case)
        if case.get('expect_present') is not None and not r['violations'] and r.get('present') is not None:
            # all-or-nothing incl. its evictions: the key set is the one before the write or the one after the complete write
            if r['present'] not in case['expect_present']:
                r['violations'].append({'rule': 'C07/post-crash-state', 'sig': 'evicting-write',
                                        'detail': 'keys after the kill %s; before the write %s, after the complete write %s' % (
                                            r['present'], case['expect_present'][0], case['expect_present'][1])})
        r.pop('present', None)
        return r
    if scen == 'lin':
        return run_lin(case)
    if scen == 'deque':
        return run_deque(case)
    if scen == 'bulk':
        return run_bulk(case)
    return run_realkill(case)


def runner_guarded(pid, fn, case):
    from ..runner import guarded
    return guarded(pid, fn, case)


def run_seed(seed, tier):
    """Baseline without fault, then the same workload with the kill at
    enumerated (thorough) or sampled (quick) seam events of the victim."""
    case = gen_case(seed, tier)
    rng = random.Random('%s/c07-kill' % seed)
    results = []
    scen = case['cfg']['scen']
    if scen == 'evict':
        empty = copy.deepcopy(case)
        empty['progs'] = {'v': []}
        before = run_evict(empty).get('present')
        after = run_evict(copy.deepcopy(case)).get('present')
        case['expect_present'] = [before, after]
    base = runner_guarded(PROPERTY, run_case, copy.deepcopy(case))
    base['case'] = case
    base['first_of_seed'] = True
    results.append(base)
    if base['violations']:
        return results
    if scen == 'realkill':
        total = base['outcome'].get('total_steps') or 0
        points = list(range(1, total + 1))
        if tier == 'quick':
            points = rng.sample(points, min(len(points), 6))
        elif len(points) > 60:
            points = rng.sample(points, 60)
        for k in sorted(points):
            c = copy.deepcopy(case)
            c['kill_at'] = k
            r = runner_guarded(PROPERTY, run_case, copy.deepcopy(c))
            r['case'] = c
            r['first_of_seed'] = False
            results.append(r)
            if r['violations']:
                break
        return results
    # seam counts of the victim's operations from the baseline run
    counts = base.pop('victim_seams', None)
    if counts is None:
        counts = _victim_seams(case)
    points = [(j, k) for j, n in enumerate(counts) for k in range(1, n + 1)]
    if tier == 'quick':
        points = rng.sample(points, min(len(points), 8))
    elif len(points) > 400:
        points = rng.sample(points, 400)
    for j, k in sorted(points):
        c = copy.deepcopy(case)
        c['faults'] = [{'f': 'kill', 'task': 'v', 'op': j, 'k': k, 'torn': rng.choice((0.0, 0.01, 0.5, 0.99))}]
        r = runner_guarded(PROPERTY, run_case, copy.deepcopy(c))
        r['case'] = c
        r['first_of_seed'] = False
        results.append(r)
        if r['violations']:
            break
    results[0].setdefault('extra', {})['kill_points_enumerated'] = len(points)
    return results


def _victim_seams(case):
    """Count the seam events of each victim operation in a fault-free run."""
    counts = []

    def inspect(world, main, targets, out):
        for h in out['history']:
            if h['task'] == 'v':
                counts.append(h.get('seams', 0))

    prepare = None
    if case['cfg']['scen'] == 'evict':
        prepare = _evict_prepare(case['cfg'])
    if case['cfg']['scen'] == 'bulk':
        cfg = case['cfg']

        def prepare(world, main):
            val = b'x' * (cfg['settings']['disk_min_file_size'] + 1) if cfg.get('bulk_file') and cfg['settings']['disk_min_file_size'] < 100 else 1
            for i in range(cfg['bulk_n']):
                main.set(i, val, expire=1 if i % 2 else 2, tag='t1')
            world.sim.advance(10)
    if case['cfg'].get('old_debris'):
        prepare = _debris_prepare(case['cfg'])
    if case['cfg'].get('deque_prefill'):
        npre = case['cfg']['deque_prefill']

        def prepare(world, main):
            if case['cfg'].get('deque_prefill_files'):
                main.cache.reset('disk_min_file_size', 0)
                main.extend(b'%d' % i for i in range(npre))
            else:
                main.extend(range(npre))
    conc.run_and_inspect(copy.deepcopy(case), inspect, prepare=prepare)
    return counts
