"""C01 - stored values come back identical, whatever their type, size or
storage path.  Values over the whole picklable domain are stored through every
store path (set/add/[]=/push/incr-default, Deque, Index, set(read=True) from a
stream with seeded short reads) at lengths around disk_min_file_size, for every
pickle protocol and for Disk and JSONDisk, and read back through every accessor,
immediately, after a simulated restart and destructively; a fault batch injects
OS errors into the file path and stream errors.  DESIGN.md section 9, C01."""
import copy
import hashlib
import json
import random

from .. import conc, vals
from ..audit import audit, check_messages
from ..kernel import Killed, Aborted
from ..ops import SimStream, fp
from ..world import World

PROPERTY = 'C01'
LEVEL = 'exploration'
QUICK_S = 30
THOROUGH_S = 420
BATCH = 6
RULE = ('one evaluation = one seeded run: 4-20 values drawn from the picklable domain (ints of any magnitude, floats incl. -0.0/inf/nan, '
        'text over all code-point classes incl. CR, LF, NUL, every str.splitlines separator, U+FEFF/U+FFFE (biased to the first and last position), combining and astral characters, uniformly random code points and lone surrogates, bytes, None/bool, nested '
        'containers, containers with shared sub-objects and with cycles (compared as object graphs), byte streams with seeded short reads, from real files with a consumed header and from gzip readers) at lengths threshold-1/threshold/threshold+1 (and once per batch beyond the '
        '4 MiB stream chunk) x disk_min_file_size in {0,1,8,64,32768} x pickle protocol 0-5 x Disk/JSONDisk, each stored through one '
        'of set/add/[]=/push/Deque.append(left)/Deque[]=/Index[]=/Index.setdefault/set(read=True) and read back through every accessor '
        'that applies (get, [], read, peek, peekitem, Deque/Index element access; after a simulated restart; then pop/pull/popitem); in '
        'the fault batch one file-system call of the store fails or the source stream raises; oracle: type-and-structure equality, or '
        'an exception and no trace of the key; non-trivial = at least one file-backed value round-tripped; distinct = SHA-256 of the case')
RULE += ' ' + 'Value files opened unbuffered accept at most 4096 bytes per write() call (a short write, reported in the return value).'
RULE += ' ' + 'JSONDisk runs end with values JSON cannot represent (bytes, sets, complex, dates, Decimals): rejected without a trace or read back unchanged.'
RULE += ' ' + 'Subclass values include ones equal to True / False / 0 / 1; one seed in 97 stores text of more than 4 MiB in mixed 1- to 4-byte UTF-8 characters.'
ASSUMPTIONS = ['this property is mostly a function of the input; the simulator contributes the stream, fault and restart dimensions, the value sweep is generative differential testing on the same runs',
               'JSONDisk is exercised with JSON-stable values only (no tuples, no byte strings, no streams)']
PROBES = ('file_backed', 'stream_values', 'short_reads', 'rejected_values', 'restart_reads', 'oserr', 'chunk_boundary', 'shared_or_cyclic_values', 'real_file_streams', 'returned_value_mutated', 'json_rejections')
TECHNIQUE = 'deterministic simulation of the storage path (seeded short reads, injected file-system and stream errors, simulated restart) + generative round-trip comparison over the value domain'
LEVEL_TEXT = ('seeded exploration of values x thresholds x serializer settings x store/read paths, with the I/O side under the simulator '
              '(streams that return short reads, one failing file-system call, process restart between write and read); round trips are '
              'compared by type and structure, failures must leave no trace.')
LEVEL_NOTE = 'trusted: Python pickle/json/zlib, SQLite type affinity, tmpfs'

TEXT_BITS = ['a', '\xe9', '\r', '\n', '\r\n', '\x00', '\x85', '\u2028', '\u2029', '\U0001F600', '\uffff', ' ', '"', '\\', '\x1a', '\t',
             '\ufeff', '\ufffe', '\u200b', '\u0301', '\xa0', '\x7f', '\x0b', '\x0c', '\x1c', '\x1d', '\x1e', '\u0800', '\U0010ffff']
# code points that a decoder, a text-mode file or a line splitter may treat specially when they come first or last
EDGE_BITS = ['\ufeff', '\ufffe', '\n', '\r', '\x00', ' ', '\x1a', '\u2028', '\xef\xbb\xbf', '\xff\xfe']


def gen_text(rng, n):
    out = []
    while len(out) < n:
        if rng.random() < 0.08:
            cp = rng.randrange(0x110000)
            out.append(chr(cp) if not 0xD800 <= cp <= 0xDFFF else 'a')
        else:
            out.append(rng.choice(TEXT_BITS))
    text = ''.join(out)[:n]
    if text and rng.random() < 0.3:
        edge = rng.choice(EDGE_BITS)[:len(text)]
        text = edge + text[len(edge):] if rng.random() < 0.7 else text[:len(text) - len(edge)] + edge
    return text


def gen_value(rng, mfs, json_ok):
    """Returns (spec, kind).  spec is JSON-able; 'txt' specs carry code points."""
    r = rng.random()
    n = rng.choice((0, 1, max(0, mfs - 1), mfs, mfs + 1, mfs + 7)) if mfs <= 64 else rng.choice((0, 5, mfs - 1, mfs, mfs + 1))
    if r < 0.22:
        return {'txt': [ord(c) for c in gen_text(rng, n)]}, 'text'
    if r < 0.27:
        cps = [ord(c) for c in gen_text(rng, max(1, n))]
        cps[rng.randrange(len(cps))] = rng.choice((0xD800, 0xDFFF, 0xDC80))
        return {'txt': cps}, 'surrogate'
    if r < 0.42 and not json_ok:
        return {'b': bytes(rng.getrandbits(8) for _ in range(min(n, 70000))).hex()} if n < 200 else {'big': ['bytes', n, 'r%d' % rng.randrange(1000)]}, 'bytes'
    if r < 0.52:
        return rng.choice((0, 1, -1, 2 ** 31, -2 ** 63, 2 ** 63 - 1, {'i': str(2 ** 63)}, {'i': str(-2 ** 63 - 1)}, {'i': str(10 ** 40)},
                           {'i': str(-10 ** 25)})), 'int'
    if r < 0.64:
        return {'f': rng.choice(('0.0', '-0.0', '1.5', '-2.5', 'inf', '-inf', 'nan', '1e308', '5e-324', '1e16', '9007199254740993.0', '0.1'))}, 'float'
    if r < 0.70:
        if not json_ok and rng.random() < 0.3:
            return {'ba': bytes(rng.getrandbits(8) for _ in range(rng.choice((0, 3, mfs + 1 if mfs < 100 else 40)))).hex()}, 'bytearray'
        if not json_ok and rng.random() < 0.4:
            # instances of subclasses of the natively stored types, short and at the file threshold
            return rng.choice(({'sub': ['str', 'r' * rng.choice((3, mfs + 1 if mfs < 100 else 40))]}, {'sub': ['bytes', {'b': 'ab' * rng.choice((2, mfs + 1 if mfs < 100 else 40))}]},
                               {'sub': ['int', 7]}, {'sub': ['float', {'f': '2.5'}]},
                               # ... and such that compare (and hash) equal to True / False / 0 / 1
                               {'sub': ['int', 1]}, {'sub': ['int', 0]}, {'sub': ['float', {'f': '1.0'}]}, {'sub': ['float', {'f': '0.0'}]})), 'subclass'
        return rng.choice((None, True, False)), 'const'
    if r < 0.85:
        inner = [1, 'x', None, {'f': '-0.0'}, {'f': 'nan'}]
        if json_ok:
            spec = rng.choice(({'l': inner}, {'d': [['k', {'l': [1, 2]}], ['n', None]]}, {'l': []}, {'d': []},
                               {'l': [{'txt': [ord(c) for c in gen_text(rng, rng.choice((3, mfs + 2)))]}]}))
        else:
            spec = rng.choice(({'l': inner}, {'t': inner}, {'d': [['k', {'t': [1, 2]}], [7, {'b': '00ff'}]]}, {'fs': [1, 2, 3]},
                               {'t': []}, {'l': [{'b': 'aa' * rng.choice((1, mfs + 2))}]}, {'big': ['pickle', max(10, n), 'p']},
                               # one object reachable by two paths, and objects that contain themselves: the same GRAPH comes back
                               {'graph': ['alias', rng.choice((1, mfs + 2))]}, {'graph': ['diamond', rng.choice((2, 6))]},
                               {'graph': ['cycle-list', 0]}, {'graph': ['cycle-dict', rng.choice((1, mfs + 2))]}))
        return spec, 'container'
    if json_ok:
        return {'txt': [ord(c) for c in gen_text(rng, n)]}, 'text'
    return {'big': ['bytes', max(1, n), 's%d' % rng.randrange(1000)]}, 'stream'


def build_graph(kind, n):
    if kind == 'alias':
        x = ['x' * n, 1]
        return {'a': x, 'b': x, 'c': (x, [x])}
    if kind == 'diamond':
        node = ['leaf']
        for _ in range(n):
            node = [node, node]
        return node
    if kind == 'cycle-list':
        x = [1, 'x']
        x.append(x)
        return x
    d = {'pad': 'y' * n}
    d['self'] = d
    d['pair'] = (d, [d])
    return d


def graph_same(a, b, fwd=None, back=None):
    """Same structure AND same sharing: an isomorphism of the two object graphs (containers by identity)."""
    if fwd is None:
        fwd, back = {}, {}
    if type(a) is not type(b):
        return False
    if isinstance(a, (list, tuple, dict)):
        if id(a) in fwd or id(b) in back:
            return fwd.get(id(a)) == id(b) and back.get(id(b)) == id(a)
        fwd[id(a)] = id(b)
        back[id(b)] = id(a)
        if len(a) != len(b):
            return False
        if isinstance(a, dict):
            return all(ka == kb and graph_same(va, vb, fwd, back) for (ka, va), (kb, vb) in zip(a.items(), b.items()))
        return all(graph_same(x, y, fwd, back) for x, y in zip(a, b))
    return vals.same(a, b)


def dec(spec):
    if isinstance(spec, dict) and 'graph' in spec:
        return build_graph(*spec['graph'])
    if isinstance(spec, dict) and 'txt' in spec:
        return ''.join(chr(c) for c in spec['txt'])
    if isinstance(spec, dict) and 'ba' in spec:
        return bytearray(bytes.fromhex(spec['ba']))
    if isinstance(spec, dict) and 'l' in spec:
        return [dec(x) for x in spec['l']]
    if isinstance(spec, dict) and 't' in spec:
        return tuple(dec(x) for x in spec['t'])
    if isinstance(spec, dict) and 'd' in spec:
        return {dec(a): dec(b) for a, b in spec['d']}
    return vals.dec(spec)


STORES = ['set', 'set', 'add', 'setitem', 'push', 'deque_append', 'deque_appendleft', 'deque_setitem', 'index_setitem', 'index_setdefault']


def gen_case(seed, tier):
    rng = random.Random('%s/c01' % seed)
    json_ok = rng.random() < 0.2
    mfs = rng.choice((0, 1, 8, 64, 2 ** 15))
    proto = rng.choice((0, 1, 2, 3, 4, 5))
    steps = []
    for i in range(rng.randint(4, 20 if tier == 'thorough' else 10)):
        spec, kind = gen_value(rng, mfs, json_ok)
        how = 'stream' if kind == 'stream' else rng.choice(STORES)
        if json_ok and how.startswith(('deque', 'index')):
            how = 'set'
        step = {'how': how, 'v': spec, 'kind': kind, 'restart': rng.random() < 0.4}
        if how == 'stream':
            step['stream_fail'] = rng.choice((None, None, None, 0, 3))
            # where the bytes come from: the simulator's stream (short reads), a real file opened 'rb' with a header already
            # consumed, or a gzip reader over a real file - objects with a fileno() of their own
            step['stream_src'] = rng.choice(('sim', 'sim', 'file', 'gzip', 'file0'))      # file0: a plain file read from its start
            if step['stream_src'] != 'sim':
                step['stream_fail'] = None
        steps.append(step)
    huge = seed % 97 == 0
    if huge and not json_ok:
        steps.append({'how': 'stream', 'v': {'big': ['bytes', 2 ** 22 + rng.choice((1, 5)), 'huge']}, 'kind': 'stream', 'restart': False,
                      'stream_fail': None, 'no_short': True})
    if seed % 97 == 1 and not json_ok:
        # text of more than 4 MiB (the block size the library copies streams by) in multi-byte characters
        steps.append({'how': rng.choice(('set', 'set', 'add', 'index_setitem')), 'v': {'big': ['utf8', 3 * 2 ** 20 + rng.choice((0, 1, 2)), 'hugetext']},
                      'kind': 'txt', 'restart': rng.random() < 0.5})
    faults = []
    if rng.random() < 0.3:
        i = rng.randrange(len(steps))
        faults.append({'f': 'oserr', 'task': 'c0', 'op': i, 'n': rng.randint(1, 6), 'calls': ['open', 'write', 'close', 'makedirs'],
                       'errno': rng.choice(('ENOSPC', 'EIO', 'EMFILE', 'EACCES'))})
    cfg = {'mfs': mfs, 'proto': proto, 'json': json_ok, 'statistics': rng.choice((0, 1)),
           'policy': rng.choice(('least-recently-stored', 'least-recently-used'))}
    return {'seed': seed, 'cfg': cfg, 'steps': steps, 'faults': faults}


def run_case(case):
    cfg = case['cfg']
    violations = []
    probes = {}
    world = World(case['seed'], clock={'mode': 'frozen'}, yield_clock=False, step_cap=200000)
    sim = world.sim
    try:
        dc = world.dc
        kw = {'disk_min_file_size': cfg['mfs'], 'disk_pickle_protocol': cfg['proto'], 'statistics': cfg['statistics'],
              'eviction_policy': cfg['policy']}
        disk = dc.JSONDisk if cfg['json'] else dc.Disk
        path = world.path('c')
        state = {'cache': dc.Cache(path, disk=disk, **kw)}
        dq_path, ix_path = world.path('dq'), world.path('ix')
        state['dq'] = dc.Deque(directory=dq_path)
        state['dq'].cache.reset('disk_min_file_size', cfg['mfs'])
        state['dq'].cache.reset('disk_pickle_protocol', cfg['proto'])
        state['ix'] = dc.Index(ix_path)
        state['ix'].cache.reset('disk_min_file_size', cfg['mfs'])
        state['ix'].cache.reset('disk_pickle_protocol', cfg['proto'])
        sim.faults = [dict(f) for f in case.get('faults', [])]
        stream_rng = random.Random('%s/stream' % case['seed'])
        holder = {}

        def bad(rule, sig, detail):
            violations.append({'rule': 'C01/' + rule, 'sig': sig, 'detail': detail})

        def restart():
            state['cache'].close()
            state['dq'].cache.close()
            state['ix'].cache.close()
            sim.current.proc.pid += 1
            state['cache'] = dc.Cache(path, disk=disk)
            state['dq'] = dc.Deque(directory=dq_path)
            state['ix'] = dc.Index(ix_path)
            probes['restart_reads'] = probes.get('restart_reads', 0) + 1

        def check(got, want, step, via):
            is_graph = isinstance(step['v'], dict) and 'graph' in step['v']
            if is_graph:
                probes['shared_or_cyclic_values'] = probes.get('shared_or_cyclic_values', 0) + 1
            if not (graph_same(got, want) if is_graph else vals.same(got, want)):
                bad('value-altered', '%s:%s' % (step['kind'], via.split('@')[0]),
                    'stored %s via %s, read back %s via %s (threshold %d, protocol %d, %s)' % (
                        vals.brief(want), step['how'], vals.brief(got), via, cfg['mfs'], cfg['proto'], 'JSONDisk' if cfg['json'] else 'Disk'))
                return False
            # what a lookup returns is the caller's own copy: changing it in place changes nothing that a later lookup returns
            try:
                if type(got) is list:
                    got.append('changed-by-the-caller')
                elif type(got) is dict:
                    got['changed-by-the-caller'] = 1
                elif type(got) is bytearray:
                    got.extend(b'changed')
                else:
                    return True
                probes['returned_value_mutated'] = probes.get('returned_value_mutated', 0) + 1
            except Exception:  # noqa
                pass
            return True

        def client():
            task = holder['t']
            for i, step in enumerate(case['steps']):
                if violations:
                    break
                task.op = i
                task.op_seams = task.op_sql = task.op_fs = 0
                value = dec(step['v'])
                how = step['how']
                key = 'k%d' % i
                cache, dq, ix = state['cache'], state['dq'], state['ix']
                want = value
                stream = None
                try:
                    if how == 'set':
                        cache.set(key, value)
                    elif how == 'add':
                        cache.add(key, value)
                    elif how == 'setitem':
                        cache[key] = value
                    elif how == 'push':
                        key = cache.push(value, prefix='q%d' % i)
                    elif how == 'stream' and step.get('stream_src') in ('file', 'gzip', 'file0'):
                        import gzip
                        src_path = world.path('source-%d.bin' % i)
                        if step['stream_src'] == 'gzip':
                            with gzip.open(src_path, 'wb') as fh:
                                fh.write(value)
                            stream = gzip.open(src_path, 'rb')
                        elif step['stream_src'] == 'file0':
                            with open(src_path, 'wb') as fh:
                                fh.write(value)
                            stream = open(src_path, 'rb')
                        else:
                            with open(src_path, 'wb') as fh:
                                fh.write(b'HEADER-16-BYTES!' + value)
                            stream = open(src_path, 'rb')
                            stream.read(16)      # the caller has consumed a header: what follows is the value
                        try:
                            cache.set(key, stream, read=True)
                        finally:
                            stream.close()
                        # the source is the caller's file: what becomes of it afterwards is no business of the stored value
                        with open(src_path, 'r+b') as fh:
                            fh.write(b'REWRITTEN-BY-THE-CALLER')
                        if step['stream_src'] == 'file0':
                            with open(src_path, 'ab') as fh:
                                fh.write(b'...and appended to')
                        probes['stream_values'] = probes.get('stream_values', 0) + 1
                        probes['real_file_streams'] = probes.get('real_file_streams', 0) + 1
                    elif how == 'stream':
                        stream = SimStream(value, None if step.get('no_short') else stream_rng, step.get('stream_fail'))
                        cache.set(key, stream, read=True)
                        probes['stream_values'] = probes.get('stream_values', 0) + 1
                        probes['short_reads'] = probes.get('short_reads', 0) + stream.short_reads
                        if len(value) > 2 ** 22:
                            probes['chunk_boundary'] = 1
                    elif how == 'deque_append':
                        dq.append(value)
                    elif how == 'deque_appendleft':
                        dq.appendleft(value)
                    elif how == 'deque_setitem':
                        dq.append(0)
                        dq[-1] = value
                    elif how == 'index_setitem':
                        ix[key] = value
                    elif how == 'index_setdefault':
                        got = ix.setdefault(key, value)
                        check(got, want, step, 'setdefault')
                    stored = True
                except (Killed, Aborted):
                    raise
                except Exception as exc:  # noqa
                    stored = False
                    probes['rejected_values'] = probes.get('rejected_values', 0) + 1
                    injected = any(f.get('done') and f.get('op') == i for f in sim.faults) or (step.get('stream_fail') is not None)
                    unstorable = step['kind'] == 'surrogate'
                    if not (injected or unstorable):
                        bad('storable-value-rejected', '%s:%s' % (step['kind'], type(exc).__name__),
                            'storing %s via %s raised %s: %s' % (vals.brief(value), how, type(exc).__name__, str(exc)[:80]))
                        break
                    # no trace of the key
                    if how in ('set', 'add', 'setitem', 'stream') and key in cache:
                        bad('failed-store-left-value', step['kind'], 'key %s present after the store raised %s' % (key, type(exc).__name__))
                    if how.startswith('index') and key in ix:
                        bad('failed-store-left-value', step['kind'], 'Index key %s present after the store raised' % key)
                    continue
                # the injected failure belongs to the store path only: reads run under another operation index
                task.op = 100000 + i
                # non-destructive accessors
                for phase in ('now', 'restart') if step['restart'] else ('now',):
                    if phase == 'restart':
                        restart()
                        cache, dq, ix = state['cache'], state['dq'], state['ix']
                    tag = '@' + phase
                    if how in ('set', 'add', 'setitem', 'stream'):
                        ok = check(cache.get(key), want, step, 'get' + tag) and check(cache[key], want, step, 'getitem' + tag)
                        if ok:
                            h = cache.read(key) if not cfg['json'] else cache.get(key)   # JSONDisk + read handle: outside C01's domain
                            if hasattr(h, 'read'):
                                with h:
                                    data = h.read()
                                check(data, want, step, 'read' + tag)
                                probes['file_backed'] = probes.get('file_backed', 0) + 1
                            else:
                                check(h, want, step, 'read' + tag)
                            pk, pv = cache.peekitem()
                            if phase == 'now':
                                check(pv, want, step, 'peekitem' + tag)
                    elif how == 'push':
                        pk, pv = cache.peek(prefix='q%d' % i)
                        check(pv, want, step, 'peek' + tag)
                        if not cfg['json']:
                            # push writes its key natively; under JSONDisk a lookup by that key goes through the JSON key
                            # encoding and cannot find it (key addressing, not value fidelity: outside C01)
                            check(cache.get(key), want, step, 'get' + tag)
                    elif how == 'deque_append' or how == 'deque_setitem':
                        check(dq[-1], want, step, 'Deque[-1]' + tag) and check(dq.peek(), want, step, 'Deque.peek' + tag)
                    elif how == 'deque_appendleft':
                        check(dq[0], want, step, 'Deque[0]' + tag) and check(dq.peekleft(), want, step, 'Deque.peekleft' + tag)
                    elif how.startswith('index'):
                        check(ix[key], want, step, 'Index[]' + tag)
                        check(ix.peekitem()[1], want, step, 'Index.peekitem' + tag)
                    if violations:
                        break
                if violations:
                    break
                # destructive accessors
                if how in ('set', 'add', 'setitem', 'stream'):
                    check(cache.pop(key), want, step, 'pop')
                    if key in cache:
                        bad('pop-left-item', step['kind'], key)
                elif how == 'push':
                    check(cache.pull(prefix='q%d' % i)[1], want, step, 'pull')
                elif how in ('deque_append', 'deque_setitem'):
                    check(dq.pop(), want, step, 'Deque.pop')
                elif how == 'deque_appendleft':
                    check(dq.popleft(), want, step, 'Deque.popleft')
                elif how == 'index_setitem':
                    check(ix.pop(key), want, step, 'Index.pop')
                else:
                    check(ix.popitem()[1], want, step, 'Index.popitem')
            return True

        holder['t'] = sim.spawn('c0', 'p0', client)
        sim.run()
        t = holder['t']
        if t.exc is not None and not isinstance(t.exc, (Killed, Aborted)):
            bad('unexpected-exception', type(t.exc).__name__, str(t.exc)[:160])
        for d in (path, dq_path, ix_path):
            problems, empties, info = audit(d)
            if problems and not violations:
                bad('audit', ','.join(sorted({p[0] for p in problems})), '%s (faults %s)' % (problems[:3], case.get('faults')))
        if cfg['json'] and not violations and not case.get('faults'):
            # JSONDisk and values JSON cannot carry: rejected with an exception and no trace of the key - or stored and read
            # back as they were; never stored as something else
            import datetime
            import decimal
            c = state['cache']
            for i, v in enumerate((b'raw bytes', {1, 2, 3}, complex(1, 2), datetime.date(2020, 2, 29), decimal.Decimal('1.50'),
                                   {'nested': [1, b'x']}, [1, {2, 3}])):
                k = 'not-json-%d' % i
                for how in ('set', 'add'):
                    try:
                        getattr(c, how)(k, v)
                    except Exception:  # noqa
                        if k in c:
                            bad('rejected-value-left-a-trace', how, 'key %r present after %s(%r) raised' % (k, how, v))
                        probes['json_rejections'] = probes.get('json_rejections', 0) + 1
                        continue
                    got = c.get(k)
                    if type(got) is not type(v) or got != v:
                        bad('value-altered', 'jsondisk-not-representable:' + how, 'stored %r through %s under JSONDisk, read back %r' % (v, how, got))
                    c.delete(k)
                if violations:
                    break
        state['cache'].close()
        state['dq'].cache.close()
        state['ix'].cache.close()
        digest = hashlib.sha256(json.dumps(case, sort_keys=True).encode()).hexdigest()
        fired = dict(sim.fired)
        if fired.get('oserr'):
            probes['oserr'] = fired['oserr']
        res = {'violations': violations, 'digest': digest, 'steps': sim.step, 'switches': 0, 'fired': fired, 'probes': probes,
               'virtual_s': 0.0, 'nontrivial': probes.get('file_backed', 0) > 0 or bool(fired), 'outcome': {'values': len(case['steps'])}}
    finally:
        world.close()
    return res


def shrink_candidates(case):
    steps = case['steps']
    for i in reversed(range(len(steps))):
        if len(steps) > 1:
            c = copy.deepcopy(case)
            del c['steps'][i]
            c['faults'] = [dict(f, op=f['op'] - (1 if f['op'] > i else 0)) for f in c.get('faults', []) if f['op'] != i]
            yield c
    if case.get('faults'):
        c = copy.deepcopy(case)
        c['faults'] = []
        yield c
