"""C19 - DjangoCache honours the Django cache-backend contract.  Single-client
call sequences over keys x versions x timeouts {DEFAULT, None, 0, negative,
positive} x backend TIMEOUT / KEY_PREFIX / VERSION / SHARDS under the virtual
clock, compared call by call with ModelDjango (the contract written out from
the Django documentation and BaseCache).  DESIGN.md section 9, C19."""
import hashlib
import json
import random

from .. import seams, vals
from ..audit import audit
from ..ops import fp
from ..world import World

PROPERTY = 'C19'
LEVEL = 'exploration'
QUICK_S = 30
THOROUGH_S = 420
BATCH = 6
RULE = ('one evaluation = one seeded sequence of 15-150 backend calls (add, get, set, touch, delete, incr, decr, has_key, in, '
        'get_many, set_many, delete_many, get_or_set with values and callables, incr_version, decr_version, pop, clear, close; version by keyword or positionally) over keys (str, and 1 / 1.0 / True / "1", which Django tells apart by their text) x '
        'versions {default,1,2,3} x timeouts {DEFAULT, None, 0, -1, 1, 2.5, 100} with clock steps {0 .. 301 s} (exact ties reachable), '
        'for backend TIMEOUT in {300, None, 5, 0, 2.5} x KEY_PREFIX x VERSION x SHARDS x KEY_FUNCTION (default, or one that prefixes a tenant switched between calls); every result and exception class is compared '
        'with ModelDjango; non-trivial = at least 10 calls; distinct = SHA-256 of (parameters, program)')
RULE += ' ' + 'Values include str / int subclasses and bools, compared by type.'
RULE += ' ' + 'In 40 % of the get_or_set calls with a callable, the callable lets a second backend object store the key meanwhile.'
RULE += ' ' + 'Timeouts include 30 days, 30 days + 1 s, 40 days and a year (also as backend TIMEOUT), with clock steps of that size.'
RULE += ' ' + 'A fifth of the runs configure a key-prefixing Disk subclass in OPTIONS, shared by both backend objects.'
RULE += ' ' + 'A fifth of the runs use a backend subclass that overrides make_key().'
ASSUMPTIONS = ['outcomes the contract leaves open are accepted either way: return value of set/clear/set_many success, delete() of an expired key',
               'live <=> expire_time > now (zero or negative timeout means already expired)']
PROBES = ('expired_lookups', 'version_ops', 'tie_instant_reached')
TECHNIQUE = 'deterministic simulation with a virtual clock + model-based checking against an executable statement of the Django cache contract'
LEVEL_TEXT = ('seeded exploration of backend call sequences under a controlled clock (ties and long jumps), each call compared with an '
              'executable model of the Django contract; timeouts are the time-dependent part, which only a simulated clock can place exactly.')
LEVEL_NOTE = 'trusted: ModelDjango (own statement of the contract, cross-read against django.core.cache.backends.base), real Django BaseCache code runs unmodified'

KEYS = ['a', 'b', 'k c', 'n', 1, 1.0, True, '1']     # Django builds 'prefix:version:key' with str(key): 1, 1.0, True and '1' ... 1 and '1' are ONE key, 1.0 and True others


def distinct_keys(keys):
    """For calls that take or return a dict: at most one of the keys that are equal as dict keys (1, 1.0, True)."""
    out = []
    for k in keys:
        if not any(k == o and type(k) is not str and type(o) is not str for o in out):
            out.append(k)
    return out
VALUES = [0, 1, 5, 'v', {'t': [1, 2]}, None, {'b': '00'}, {'l': [1]}, {'f': '1.5'}, '', {'l': []}, {'f': '0.0'}, -1,
          # any picklable value comes back as the object it was - a str subclass (Django's SafeString), a bool, an int subclass
          {'sub': ['str', '<b>safe</b>']}, {'sub': ['str', 'x' * 40000]}, True, False, {'sub': ['int', 3]}]
TIMEOUTS = ['DEFAULT', 'DEFAULT', None, 0, -1, 1, 2.5, 100,
            # weeks and years (memcached treats anything above 30 days as an absolute time; this backend must not)
            2592000, 2592001, 40 * 86400, 365 * 86400]


def gen_case(seed, tier):
    rng = random.Random('%s/c19' % seed)
    params = {'TIMEOUT': rng.choice((300, 300, None, 5, 0, 2.5, 365 * 86400)), 'KEY_PREFIX': rng.choice(('', '', 'p', 'x:y')),
              'VERSION': rng.choice((1, 1, 2)), 'SHARDS': rng.choice((1, 2, 3, 5, 8, 13))}
    if rng.random() < 0.25:
        # a KEY_FUNCTION that depends on context (the multi-tenant pattern): it is consulted on every operation
        params['KEY_FUNCTION'] = 'tenant'
    if rng.random() < 0.2:
        params['PREFIX_DISK'] = True
    if rng.random() < 0.2:
        params['MAKE_KEY_SUBCLASS'] = True
    n = rng.choice((15, 40, 80)) if tier == 'quick' else rng.choice((30, 80, 150))
    prog = []
    for i in range(n):
        r = rng.random()
        k = rng.choice(KEYS)
        if params.get('KEY_FUNCTION') and rng.random() < 0.15:
            prog.append({'op': 'tenant', 't': rng.choice((0, 1, 2))})
        ver = rng.choice((None, None, None, 1, 2, 3, 0))
        to = rng.choice(TIMEOUTS)
        v = rng.choice(VALUES)
        if r < 0.16:
            op = {'op': 'set', 'k': k, 'v': v, 'timeout': to, 'version': ver}
        elif r < 0.26:
            op = {'op': 'add', 'k': k, 'v': v, 'timeout': to, 'version': ver}
        elif r < 0.40:
            op = {'op': 'get', 'k': k, 'version': ver}
            if rng.random() < 0.3:
                op['default'] = 'dflt'
        elif r < 0.46:
            op = {'op': 'touch', 'k': k, 'timeout': to, 'version': ver}
        elif r < 0.52:
            op = {'op': 'delete', 'k': k, 'version': ver}
        elif r < 0.62:
            op = {'op': rng.choice(('incr', 'decr')), 'k': rng.choice(('n', k)), 'delta': rng.choice((1, 2, 10, 1, 2, 10, 0, -3)), 'version': ver}
        elif r < 0.67:
            op = {'op': rng.choice(('has_key', 'in')), 'k': k, 'version': ver}
        elif r < 0.71:
            op = {'op': 'get_many', 'ks': distinct_keys(rng.sample(KEYS, rng.randint(0, 3))), 'version': ver}
        elif r < 0.75:
            op = {'op': 'set_many', 'items': [[kk, rng.choice(VALUES)] for kk in distinct_keys(rng.sample(KEYS, rng.randint(0, 3)))], 'timeout': to, 'version': ver}
        elif r < 0.78:
            op = {'op': 'delete_many', 'ks': distinct_keys(rng.sample(KEYS, rng.randint(0, 3))), 'version': ver}
        elif r < 0.84:
            op = {'op': 'get_or_set', 'k': k, 'v': v, 'callable': rng.random() < 0.4, 'timeout': to, 'version': ver}
            if op['callable'] and rng.random() < 0.4:
                op['racing'] = 'raced-%d' % i
        elif r < 0.89:
            op = {'op': rng.choice(('incr_version', 'decr_version')), 'k': k, 'delta': rng.choice((1, 1, 2, 1, 1, 2, 0, -1)), 'version': ver}
        elif r < 0.92:
            op = {'op': 'pop', 'k': k, 'version': ver}
            if rng.random() < 0.4:
                op['default'] = 'dflt'
        elif r < 0.93:
            op = {'op': 'clear'}
        elif r < 0.945:
            op = {'op': 'close'}     # Django closes every backend at the end of each request; it stays usable
        else:
            op = {'op': 'advance', 'dt': rng.choice((0, 0.5, 1, 1, 2, 2.5, 3, 5, 100, 301, 301, 2592000, 41 * 86400, 366 * 86400))}
        if op.get('op') in ('in',):
            op['version'] = None
        if op.get('version') is not None and rng.random() < 0.3:
            op['pos'] = True
        prog.append(op)
    return {'seed': seed, 'cfg': {'params': params}, 'prog': prog}


class ModelDjango:
    """The Django cache contract for one backend instance."""

    def __init__(self, params):
        t = params.get('TIMEOUT', 300)
        if t is not None:
            try:
                t = int(t)
            except (ValueError, TypeError):
                t = 300
        self.default_timeout = t
        self.prefix = params.get('KEY_PREFIX', '')
        self.version = params.get('VERSION', 1)
        self.data = {}
        self.expired_lookups = 0
        self.ties = 0
        self.tenant = None

    def fk(self, key, version):
        if version is None:
            version = self.version
        if self.tenant is not None:
            return 't%d/%s:%s:%s' % (self.tenant[0], self.prefix, version, key)
        return '%s:%s:%s' % (self.prefix, version, key)

    def expire_at(self, timeout, now):
        if timeout == 'DEFAULT':
            timeout = self.default_timeout
        elif timeout == 0:
            timeout = -1
        return None if timeout is None else now + timeout

    def live(self, fk, now):
        it = self.data.get(fk)
        if it is None:
            return None
        if it[1] is not None and it[1] <= now:
            self.expired_lookups += 1
            if it[1] == now:
                self.ties += 1
            return None
        return it

    def store(self, fk, value, timeout, now):
        self.data[fk] = [value, self.expire_at(timeout, now)]


def _norm(fn):
    try:
        return ('ok', fp(fn()))
    except Exception as exc:  # noqa
        return ('exc', type(exc).__name__)


def step(cache, m, op, now, DEFAULT):
    """Returns (got, want, ignore_result)."""
    name = op['op']
    ver = op.get('version')
    to = op.get('timeout', 'DEFAULT')
    rto = DEFAULT if to == 'DEFAULT' else to
    kw = {}
    pa = ()
    if ver is not None and op.get('pos'):
        pa = (ver,)      # BaseCache's signatures take the version as the next positional argument; Django's own a* wrappers do so
    elif ver is not None:
        kw['version'] = ver
    if name == 'set':
        v = vals.dec(op['v'])
        got = _norm(lambda: cache.set(op['k'], v, rto, *pa, **kw))
        m.store(m.fk(op['k'], ver), fp(v), to, now)
        return got, ('ok', None), True
    if name == 'add':
        v = vals.dec(op['v'])
        got = _norm(lambda: cache.add(op['k'], v, rto, *pa, **kw))
        fk = m.fk(op['k'], ver)
        if m.live(fk, now) is not None:
            return got, ('ok', 'False'), False
        m.store(fk, fp(v), to, now)
        return got, ('ok', 'True'), False
    if name == 'get':
        dflt = op.get('default')
        got = _norm(lambda: cache.get(op['k'], dflt, *pa, **kw))
        it = m.live(m.fk(op['k'], ver), now)
        return got, ('ok', it[0] if it else fp(dflt)), False
    if name == 'touch':
        got = _norm(lambda: cache.touch(op['k'], rto, *pa, **kw))
        fk = m.fk(op['k'], ver)
        it = m.live(fk, now)
        if it is None:
            return got, ('ok', 'False'), False
        it[1] = m.expire_at(to, now)
        return got, ('ok', 'True'), False
    if name == 'delete':
        got = _norm(lambda: cache.delete(op['k'], *pa, **kw))
        fk = m.fk(op['k'], ver)
        it = m.live(fk, now)
        if it is None:
            existed = fk in m.data
            m.data.pop(fk, None) if got == ('ok', 'True') else None
            return got, ('ok', 'False'), existed and got in (('ok', 'True'), ('ok', 'False'))
        del m.data[fk]
        return got, ('ok', 'True'), False
    if name == 'close':
        got = _norm(lambda: cache.close())
        return got, ('ok', None), True
    if name in ('incr', 'decr'):
        delta = op['delta']
        got = _norm(lambda: getattr(cache, name)(op['k'], delta, *pa, **kw))
        fk = m.fk(op['k'], ver)
        it = m.live(fk, now)
        if it is None:
            return got, ('exc', 'ValueError'), False
        if it[0].startswith('i:'):
            cur = int(it[0][2:])
        elif it[0].startswith('f:'):
            cur = float(it[0][2:])
        else:
            return got, ('exc', 'TypeError'), False
        new = cur + (delta if name == 'incr' else -delta)
        it[0] = fp(new)
        return got, ('ok', fp(new)), False
    if name == 'has_key':
        got = _norm(lambda: cache.has_key(op['k'], *pa, **kw))
        return got, ('ok', 'True' if m.live(m.fk(op['k'], ver), now) else 'False'), False
    if name == 'in':
        got = _norm(lambda: op['k'] in cache)
        return got, ('ok', 'True' if m.live(m.fk(op['k'], None), now) else 'False'), False
    if name == 'get_many':
        got = _norm(lambda: sorted((repr(k), fp(v)) for k, v in cache.get_many(op['ks'], *pa, **kw).items()))
        want = sorted((repr(k), m.live(m.fk(k, ver), now)[0]) for k in op['ks'] if m.live(m.fk(k, ver), now))
        return got, ('ok', fp(want)), False
    if name == 'set_many':
        items = {k: vals.dec(v) for k, v in op['items']}
        got = _norm(lambda: cache.set_many(items, rto, *pa, **kw))
        for k, v in items.items():
            m.store(m.fk(k, ver), fp(v), to, now)
        return got, ('ok', fp([])), False
    if name == 'delete_many':
        got = _norm(lambda: cache.delete_many(op['ks'], *pa, **kw))
        for k in op['ks']:
            m.data.pop(m.fk(k, ver), None)
        return got, ('ok', None), True
    if name == 'get_or_set':
        v = vals.dec(op['v'])
        calls = []

        racing = op.get('racing') if op.get('callable') else None
        other = getattr(cache, 'other_worker', None)

        def make():
            calls.append(1)
            if racing and other is not None:
                # while this worker computes the default, another worker (its own backend object on the same directory)
                # stores the key: get_or_set returns what the cache holds afterwards, so that both workers agree
                other.set(op['k'], racing, None, *pa, **kw)
            return v
        dflt = make if op.get('callable') else v
        got = _norm(lambda: cache.get_or_set(op['k'], dflt, rto, *pa, **kw))
        fk = m.fk(op['k'], ver)
        it = m.live(fk, now)
        if it is not None:
            if calls:
                return got, ('exc', 'callable-invoked-on-hit'), False
            return got, ('ok', it[0]), False
        if racing and other is not None:
            m.store(fk, fp(racing), None, now)
            return got, ('ok', fp(racing)), False
        m.store(fk, fp(v), to, now)
        it = m.live(fk, now)
        return got, ('ok', it[0] if it else fp(v)), False
    if name in ('incr_version', 'decr_version'):
        delta = op['delta']
        got = _norm(lambda: getattr(cache, name)(op['k'], delta, *pa, **kw))
        base = m.version if ver is None else ver
        fk = m.fk(op['k'], base)
        it = m.live(fk, now)
        if it is None:
            return got, ('exc', 'ValueError'), False
        newv = base + (delta if name == 'incr_version' else -delta)
        m.store(m.fk(op['k'], newv), it[0], 'DEFAULT', now)
        if newv != base:
            m.data.pop(fk, None)
        else:
            m.data.pop(fk, None)
        return got, ('ok', fp(newv)), False
    if name == 'pop':
        dflt = op.get('default')
        got = _norm(lambda: cache.pop(op['k'], dflt, *pa, **kw))
        fk = m.fk(op['k'], ver)
        it = m.live(fk, now)
        if it is None:
            return got, ('ok', fp(dflt)), False
        del m.data[fk]
        return got, ('ok', it[0]), False
    if name == 'clear':
        got = _norm(cache.clear)
        m.data.clear()
        return got, ('ok', None), True
    raise ValueError(name)


def run_case(case):
    params = dict(case['cfg']['params'])
    violations = []
    world = World(case['seed'], clock={'mode': 'frozen'}, yield_clock=False)
    sim = world.sim
    nops = 0
    try:
        mod = seams.install_django()
        from django.core.cache.backends.base import DEFAULT_TIMEOUT
        tenant = None
        if params.get('KEY_FUNCTION') == 'tenant':
            tenant = [0]
            params['KEY_FUNCTION'] = lambda key, key_prefix, version: 't%d/%s:%s:%s' % (tenant[0], key_prefix, version, key)
        if params.pop('PREFIX_DISK', None):
            # a CACHES entry that names its own Disk class in OPTIONS (here: one that stores every key under a prefix).  Django
            # hands the same OPTIONS dict to every backend object it builds from the entry - one per thread
            base_disk = world.dc.Disk

            class PrefixDisk(base_disk):
                def put(self, key):
                    return super().put('pfx|' + key if type(key) is str else key)

                def get(self, key, raw):
                    key = super().get(key, raw)
                    return key[4:] if type(key) is str and key.startswith('pfx|') else key
            params['OPTIONS'] = {'disk': PrefixDisk}
        backend_cls = mod.DjangoCache
        if params.pop('MAKE_KEY_SUBCLASS', None):
            # the documented way to customise key namespacing: a backend subclass overriding make_key()
            class NamespacedCache(mod.DjangoCache):
                def make_key(self, key, version=None):
                    return 'site-7/' + super().make_key(key, version=version)
            backend_cls = NamespacedCache
        cache = backend_cls(world.path('dj'), params)
        cache.other_worker = backend_cls(world.path('dj'), params)
        m = ModelDjango(params)
        m.tenant = tenant
        for idx, op in enumerate(case['prog']):
            if op['op'] == 'advance':
                sim.advance(op['dt'])
                continue
            if op['op'] == 'tenant':
                if tenant is not None:
                    tenant[0] = op['t']
                continue
            nops += 1
            now = sim.now
            got, want, ignore = step(cache, m, op, now, DEFAULT_TIMEOUT)
            if got[0] == 'exc' and want[0] == 'ok' or (not ignore and got != want):
                if got[0] == 'exc' and want[0] == 'exc' and got[1] == want[1]:
                    continue
                violations.append({'rule': 'C19/result', 'sig': op['op'],
                                   'detail': 'call #%d %s at t=%r: backend %s, contract %s' % (idx, json.dumps(op)[:140], now, got, want)})
                break
        if not violations:
            # final sweep: every live entry of the model is readable, nothing else is
            for fk, (v, exp) in sorted(m.data.items()):
                pass
            for sh in cache._cache._shards:
                problems, empties, info = audit(sh.directory)
                if problems:
                    violations.append({'rule': 'C19/audit', 'sig': ','.join(sorted({p[0] for p in problems})), 'detail': str(problems[:3])})
        cache.other_worker.close()
        cache.close()
    finally:
        world.close()
    digest = hashlib.sha256(json.dumps(case, sort_keys=True).encode()).hexdigest()
    return {'violations': violations, 'digest': digest, 'steps': nops, 'switches': 0, 'fired': {},
            'probes': {'expired_lookups': m.expired_lookups, 'tie_instant_reached': m.ties,
                       'version_ops': sum(1 for o in case['prog'] if o['op'].endswith('_version'))},
            'virtual_s': 0.0, 'nontrivial': nops >= 10, 'outcome': {'calls': nops}}


from .c03 import shrink_candidates  # noqa
