"""C16 - memoized functions return what the function returns and never share
entries.  A variadic probe function returns a canonical description of how it
was called and counts its executions; it is wrapped by Cache.memoize,
FanoutCache.memoize, Index.memoize, DjangoCache.memoize and memoize_stampede
x typed x ignore sets x name given/derived x expire {None, 0, 5}; call
sequences over an alias-prone argument alphabet run under the virtual clock;
memoize_stampede additionally runs 2-3 caller tasks plus its recompute thread
under the seeded scheduler with seeded random().  DESIGN.md section 9, C16."""
import hashlib
import json
import os
import random

from .. import seams, vals
from ..audit import audit
from ..kernel import SimIncident, Killed, Aborted
from ..world import World

PROPERTY = 'C16'
LEVEL = 'exploration'
QUICK_S = 30
THOROUGH_S = 420
BATCH = 6
RULE = ('one evaluation = one seeded run: a sequence of 10-80 calls f(*args, **kwargs) with args/kwargs drawn from {1, 1.0, True, None, '
        '"a", "x", 2, (1,)} (arity <= 3, keyword names a/x/b) and clock steps, through one memoizing decorator (Cache / FanoutCache / '
        'Index / DjangoCache .memoize, memoize_stampede) x typed x ignore x name x expire, over 1-3 functions whose (module, qualified name) pairs share a module, a name or a dotted spelling and which are decorated by one decorator object or by one memoize() call each; some calls make the function raise (must propagate, never be stored), some make it return None or another falsy value (a result like any other); every result carries the function and arguments that produced it and is compared with the direct '
        'call, the execution counter with the expiry rule, and expire=0 must leave the cache empty; stampede runs use 2-3 concurrent '
        'callers under the seeded scheduler with a slow function on the virtual clock; non-trivial = at least one cache hit; '
        'distinct = SHA-256 of the case / event log')
RULE += ' ' + 'The argument alphabet includes long (2 KB) str / bytes arguments in pairs that agree in length, first and last kilobyte, byte sum and Adler-32.'
RULE += ' ' + 'Keyword names include parameter names of the memoizing machinery (ignore, typed, base, name, expire, tag, key, args, kwargs, self, func, default, retry); one seed in 97 passes the same argument once as one object twice and once as two equal objects.'
RULE += ' ' + 'The probe function records the arguments it was called with: everything the caller passed, ignored ones included.'
RULE += ' ' + 'Arguments include dicts in two insertion orders, lists, tuples and tuples of pairs.'
RULE += ' ' + 'One seed in 97 decorates functools.partial objects of one function or instances of one callable class.'
ASSUMPTIONS = ['the probe function ignores the arguments listed in `ignore` (a function whose result depends on ignored arguments is outside the contract)',
               'without typed=True, numerically equal arguments (1, 1.0, True) may or may not share an entry; results are compared with ==']
PROBES = ('hits', 'expired_recompute', 'stampede_threads', 'typed_runs', 'ignore_runs', 'functions', 'raising_calls', 'falsy_results', 'keys_compared_across_interpreters', 'identity_pairs', 'callable_objects')
TECHNIQUE = 'deterministic simulation (virtual clock for expiry, seeded scheduler and random() for memoize_stampede) + differential checking against the undecorated function with an execution counter'
LEVEL_TEXT = ('seeded exploration of call-signature sequences x decorator options under a controlled clock; key collisions show up as '
              'wrong results because the probe function encodes its call signature in its result; stampede recomputation is explored '
              'as real concurrent tasks under the seeded scheduler.')
LEVEL_NOTE = 'trusted: simulator kernel and clock, the probe function as the specification of "what the function returns"'

ALPHA = [1, {'f': '1.0'}, True, None, 'a', 'x', 2, {'t': [1]}, {'i': str(2 ** 53)}, {'i': str(2 ** 53 + 1)}, {'f': '9007199254740992.0'}, 0, {'f': '-0.0'},
         # text that spells another argument, or carries a separator a flattened key might use
         '1', 'None', 'True', '1.0', 'a:b', 'b:c', ':', 'a,b', "('a',)"]
# long arguments (documents, rendered pages): pairs of equal length that agree in their first and last kilobyte, in their
# length and in the usual cheap checksums (three adjacent characters changed by +1, -2, +1 leave Adler-32 and the byte sum as
# they were), or that differ in the very last / very first character only
_PAD = 'lorem ipsum ' * 170
ALPHA += ['TOTAL: 131 ' + _PAD, 'TOTAL: 212 ' + _PAD, _PAD + ' page 131 ' + _PAD, _PAD + ' page 212 ' + _PAD,
          _PAD + 'a', _PAD + 'b', 'a' + _PAD, {'b': ('aca' + 'z' * 1500).encode().hex()}, {'b': ('bab' + 'z' * 1500).encode().hex()}]
# containers: equal contents in another order or another container type are other arguments
ALPHA += [{'d': [['a', 1], ['b', 2]]}, {'d': [['b', 2], ['a', 1]]}, {'t': [{'t': ['a', 1]}, {'t': ['b', 2]}]}, {'l': ['x', 'y']}, {'t': ['x', 'y']},
          {'l': ['y', 'x']}, {'d': [['x', 1]]}, {'t': [{'t': ['x', 1]}]}]      # (no sets of text: their pickles follow the hash seed - F17)
KW = ['a', 'x', 'b',
      # keyword names of the user's function that are also parameter names somewhere in the memoizing machinery
      'ignore', 'typed', 'base', 'name', 'expire', 'tag', 'key', 'args', 'kwargs', 'self', 'func', 'default', 'retry']


FNAMES = [['m1', 'f'], ['m2', 'f'], ['m1', 'A.f'], ['m1', 'B.f'], ['m1', 'g'], ['m1.f', 'g'], ['m1', 'f.<locals>.g']]


def gen_call(rng, nfun=1):
    nargs = rng.choice((0, 1, 1, 2, 3))
    args = [rng.choice(ALPHA) for _ in range(nargs)]
    kwargs = {}
    for name in rng.sample(KW, rng.choice((0, 0, 1, 2))):
        kwargs[name] = rng.choice(ALPHA)
    call = {'args': args, 'kwargs': kwargs}
    if nfun > 1:
        call['fn'] = rng.randrange(nfun)
    if rng.random() < 0.08:
        call['raise'] = True
    elif rng.random() < 0.15:
        # what the function returns for these arguments is None or another falsy value: a result like any other
        call['falsy'] = rng.choice((None, None, 0, '', False, {'t': []}, {'f': '0.0'}))
        call['has_falsy'] = True
    return call


def gen_case(seed, tier):
    rng = random.Random('%s/c16' % seed)
    if seed % 64 == 5:
        # keys across interpreters: calls with many keyword arguments, computed under two hash seeds
        calls = []
        for _ in range(12):
            names = rng.sample(['a', 'x', 'b', 'key', 'user', 'page', 'q', 'lang', 'limit', 'offset', 'zeta', 'alpha'], rng.randint(2, 7))
            calls.append({'args': [rng.choice(ALPHA) for _ in range(rng.randint(0, 2))], 'kwargs': {n: rng.choice(ALPHA) for n in names}})
        return {'seed': seed, 'cfg': {'wrap': 'xproc', 'ignore': rng.choice(([], [0], ['a'], ['q', 'zeta'])),
                                      'hashseeds': rng.sample(range(1, 1000), 2)}, 'calls': calls, 'prog': []}
    if seed % 97 == 15:
        # callables that are no plain functions (functools.partial objects of one function, instances of one callable class):
        # either the decorator refuses them, or each gets entries of its own
        return {'seed': seed, 'cfg': {'wrap': 'callables', 'target': rng.choice(('cache', 'fanout', 'index')), 'typed': rng.random() < 0.5,
                                      'what': rng.choice(('partial', 'instance')), 'named': rng.random() < 0.3}, 'calls': [], 'prog': []}
    if seed % 97 == 14:
        # the same arguments, once as one object passed twice and once as two equal objects
        return {'seed': seed, 'cfg': {'wrap': 'identity', 'target': rng.choice(('cache', 'fanout', 'index')), 'typed': rng.random() < 0.5,
                                      'member': rng.choice(('lang-en', {'b': '6b65792d31'}, {'t': [1, 'x']})),
                                      'first': rng.choice(('same', 'dist')), 'how': rng.choice(('args', 'kwargs'))}, 'calls': [], 'prog': []}
    stampede = rng.random() < 0.2
    ignore = rng.choice(([], [], [], [0], [1], ['a'], [0, 'x'], [0, 2], [0, 1], [1, 2], [0, 2, 'a']))
    cfg = {'dj_version': rng.choice((None, None, 2, 7)),      # DjangoCache.memoize(version=...): lookups and stores under that version
           'wrap': 'stampede' if stampede else rng.choice(('cache', 'cache', 'fanout', 'index', 'django')),
           'typed': rng.random() < 0.5, 'ignore': ignore, 'name': rng.choice((None, None, 'fn-name')),
           'expire': rng.choice((None, None, 0, 5)), 'f12': rng.random() < 0.03}
    nfun = 1 if stampede else rng.choice((1, 1, 2, 3))
    cfg['nfun'] = nfun
    # several functions: distinct (module, qualified name) pairs that share a module, a name or a dotted spelling;
    # decorated by one decorator object applied to each of them or by a fresh memoize(...) call per function
    cfg['fnames'] = rng.sample(FNAMES, nfun)
    cfg['deco_shared'] = rng.random() < 0.5
    calls = [gen_call(rng, nfun) for _ in range(rng.randint(2, 6))]
    if nfun > 1 and rng.random() < 0.7:
        # the same arguments through two of the functions
        twin = dict(calls[0], fn=(calls[0].get('fn', 0) + 1) % nfun)
        calls.append(twin)
    if cfg['f12'] and not stampede:
        calls += [{'args': [1, None, 'a'], 'kwargs': {}}, {'args': [1], 'kwargs': {'a': None}}]
    n = rng.choice((10, 25, 50)) if tier == 'quick' else rng.choice((20, 50, 80))
    prog = []
    for i in range(n):
        if rng.random() < 0.15:
            prog.append({'op': 'advance', 'dt': rng.choice((0, 1, 4, 5, 6, 100))})
        else:
            prog.append({'op': 'call', 'c': rng.randrange(len(calls))})
    if stampede:
        cfg['expire'] = rng.choice((2, 5, 20))
        cfg['beta'] = rng.choice((1, 1, 5, 50))
        cfg['cost'] = rng.choice((0.0, 0.1, 0.5, 1.0))
        cfg['ncallers'] = rng.choice((1, 2, 3))
        cfg['sched'] = rng.choice(({'kind': 'uniform'}, {'kind': 'sticky', 'p': 0.7}))
        cfg['gaps'] = [[rng.choice((0.0, 0.5, 1.0, 3.0)) for _ in range(rng.randint(3, 8))] for _ in range(cfg['ncallers'])]
        cfg['target'] = rng.choice(('cache', 'fanout'))
    return {'seed': seed, 'cfg': cfg, 'calls': calls, 'prog': prog}


def describe(args, kwargs, ignore):
    """What the undecorated probe function returns for a call."""
    # ignored arguments (by position or by keyword) are no part of the call's identity
    a = tuple(v for i, v in enumerate(args) if i not in ignore)
    k = tuple(sorted((n, v) for n, v in kwargs.items() if n not in ignore))
    return (a, k)


def typed_view(desc):
    a, k = desc
    return (tuple((type(v).__name__, v) for v in a), tuple((n, type(v).__name__, v) for n, v in k))


def separator_collision(a, b):
    """Known finding F12: two different call signatures OF ONE FUNCTION whose keys coincide because positional and
    keyword arguments are separated by a bare None: args + (None,) + flattened sorted kwargs are equal."""
    try:
        if len(a) == 3 and len(b) == 3:
            if a[0] != b[0]:
                return False
            a, b = a[1:], b[1:]
        fa = tuple(a[0]) + (None,) + tuple(x for kv in a[1] for x in kv)
        fb = tuple(b[0]) + (None,) + tuple(x for kv in b[1] for x in kv)
    except Exception:
        return False
    return a != b and fa == fb


class ProbeError(Exception):
    """Raised by the probe function for the calls marked 'raise'."""


def same_result(got, want, typed):
    if got != want:
        return False
    if typed and typed_view(got[-2:]) != typed_view(want[-2:]):
        return False
    return True


def build(world, cfg, counter, slow=None):
    dc = world.dc
    ignore = set(cfg['ignore'])
    parent = None
    wrap = cfg['wrap']
    if wrap == 'cache':
        store = dc.Cache(world.path('c'))
        deco = store.memoize(name=cfg['name'], typed=cfg['typed'], expire=cfg['expire'], ignore=ignore)
    elif wrap == 'fanout':
        store = dc.FanoutCache(world.path('f'), shards=3)
        deco = store.memoize(name=cfg['name'], typed=cfg['typed'], expire=cfg['expire'], ignore=ignore)
    elif wrap == 'index':
        store = dc.Index(world.path('i'))
        deco = store.memoize(name=cfg['name'], typed=cfg['typed'], ignore=ignore)
    elif wrap == 'django':
        mod = seams.install_django()
        from django.core.cache.backends.base import DEFAULT_TIMEOUT
        store = mod.DjangoCache(world.path('dj'), {'SHARDS': 2, 'TIMEOUT': 300})
        to = DEFAULT_TIMEOUT if cfg['expire'] is None else cfg['expire']
        deco = store.memoize(name=cfg['name'], timeout=to, version=cfg.get('dj_version'), typed=cfg['typed'], ignore=ignore)
    else:
        store = dc.Cache(world.path('c')) if cfg.get('target', 'cache') == 'cache' else dc.FanoutCache(world.path('f'), shards=2)
        deco = dc.memoize_stampede(store, cfg['expire'], name=cfg['name'], typed=cfg['typed'], beta=cfg.get('beta', 1), ignore=ignore)

    if cfg.get('nfun') is None:
        def probe(*args, **kwargs):
            counter['n'] += 1
            counter['received'] = (args, dict(kwargs))
            if slow is not None:
                slow(args, kwargs)
            return describe(args, kwargs, ignore)

        return store, deco(probe)

    raising = cfg.get('_raising', set())
    falsy = cfg.get('_falsy', {})

    def make(i):
        def probe(*args, **kwargs):
            counter['n'] += 1
            counter['received'] = (args, dict(kwargs))
            if slow is not None:
                slow(args, kwargs)
            res = (i,) + describe(args, kwargs, ignore)
            if repr(res) in raising:
                raise ProbeError(repr(res))
            if repr(res) in falsy:
                return falsy[repr(res)]
            return res
        probe.__module__, probe.__qualname__ = cfg['fnames'][i]
        probe.__name__ = probe.__qualname__.split('.')[-1]
        return probe

    fns = []
    for i in range(cfg['nfun']):
        if i and not (cfg.get('deco_shared') and cfg['name'] is None):
            # a fresh decorator per function; an explicit name is the caller's own namespace, so each function gets its own
            sub = dict(cfg, name=None if cfg['name'] is None else '%s-%d' % (cfg['name'], i))
            deco = _decorator(dc, store, sub, ignore)
        fns.append(deco(make(i)))
    return store, fns


def _decorator(dc, store, cfg, ignore):
    wrap = cfg['wrap']
    if wrap in ('cache', 'fanout'):
        return store.memoize(name=cfg['name'], typed=cfg['typed'], expire=cfg['expire'], ignore=ignore)
    if wrap == 'index':
        return store.memoize(name=cfg['name'], typed=cfg['typed'], ignore=ignore)
    if wrap == 'django':
        from django.core.cache.backends.base import DEFAULT_TIMEOUT
        to = DEFAULT_TIMEOUT if cfg['expire'] is None else cfg['expire']
        return store.memoize(name=cfg['name'], timeout=to, version=cfg.get('dj_version'), typed=cfg['typed'], ignore=ignore)
    return dc.memoize_stampede(store, cfg['expire'], name=cfg['name'], typed=cfg['typed'], beta=cfg.get('beta', 1), ignore=ignore)


def store_len(store, wrap):
    if wrap == 'django':
        return len(store._cache)
    return len(store)


def close_store(store, wrap):
    if wrap == 'index':
        store.cache.close()
    else:
        store.close()


def run_seq(case):
    cfg = case['cfg']
    violations = []
    probes = {'typed_runs': int(cfg['typed']), 'ignore_runs': int(bool(cfg['ignore']))}
    world = World(case['seed'], clock={'mode': 'frozen'}, yield_clock=False)
    sim = world.sim
    nops = 0
    hits = 0
    try:
        counter = {'n': 0}
        ignore = set(cfg['ignore'])
        multi = cfg.get('nfun') is not None
        if multi:
            cfg = dict(cfg, _raising=set(
                repr((c.get('fn', 0),) + describe(tuple(vals.dec(a) for a in c['args']), {k: vals.dec(v) for k, v in c['kwargs'].items()}, ignore))
                for c in case['calls'] if c.get('raise')))
            probes['functions'] = cfg['nfun']
            fmap = {}
            for c in case['calls']:
                if c.get('has_falsy') and not c.get('raise'):
                    r = repr((c.get('fn', 0),) + describe(tuple(vals.dec(a) for a in c['args']),
                                                          {k: vals.dec(v) for k, v in c['kwargs'].items()}, ignore))
                    fmap.setdefault(r, vals.dec(c['falsy']))
            cfg['_falsy'] = fmap
        store, fns = build(world, cfg, counter)
        if not multi:
            fns = [fns]
        wrap = cfg['wrap']
        expire = cfg['expire'] if wrap != 'index' else None
        if wrap == 'django' and expire is None:
            expire = 300      # DEFAULT_TIMEOUT resolves to the backend TIMEOUT given in build()
        seen = {}     # cache key -> (time stored, signature)
        for idx, op in enumerate(case['prog']):
            if op['op'] == 'advance':
                sim.advance(op['dt'])
                continue
            nops += 1
            call = case['calls'][op['c']]
            args = tuple(vals.dec(a) for a in call['args'])
            kwargs = {k: vals.dec(v) for k, v in call['kwargs'].items()}
            want = describe(args, kwargs, ignore)
            fn = fns[call.get('fn', 0)]
            falsy_result = False
            want_desc = want
            if multi:
                want = (call.get('fn', 0),) + want
                want_desc = want
                if repr(want) in cfg['_falsy'] and repr(want) not in cfg['_raising']:
                    want = cfg['_falsy'][repr(want)]
                    falsy_result = True
                    probes['falsy_results'] = probes.get('falsy_results', 0) + 1
            before = counter['n']
            try:
                got = fn(*args, **kwargs)
            except ProbeError as exc:
                # an exception of the function propagates and is never memoized: the function ran, for exactly this call
                probes['raising_calls'] = probes.get('raising_calls', 0) + 1
                if str(exc) != repr(want) or counter['n'] - before != 1:
                    violations.append({'rule': 'C16/wrong-result', 'sig': 'exception-of-another-call',
                                       'detail': 'call #%d %s raised %s after %d executions; the function raises for %r' % (
                                           idx, json.dumps(call), exc, counter['n'] - before, want)})
                    break
                continue
            except Exception as exc:  # noqa
                violations.append({'rule': 'C16/unexpected-exception', 'sig': type(exc).__name__,
                                   'detail': 'call #%d %s: %s' % (idx, json.dumps(call), str(exc)[:100])})
                break
            ran = counter['n'] - before
            if ran and counter.get('received') is not None:
                # what is ignored stays out of the KEY; the function itself is called with everything the caller passed
                r_args, r_kwargs = counter['received']
                if len(r_args) != len(args) or sorted(r_kwargs) != sorted(kwargs) or any(a is not b for a, b in zip(r_args, args)):
                    violations.append({'rule': 'C16/arguments-not-passed-through', 'sig': wrap,
                                       'detail': 'call #%d %s: the function received %d positional and the keywords %s' % (
                                           idx, json.dumps(call)[:200], len(r_args), sorted(r_kwargs))})
                    break
            if multi and repr(want) in cfg['_raising']:
                prev = seen.get(repr(fn.__cache_key__(*args, **kwargs)))
                f12 = prev is not None and separator_collision(prev[1], want_desc)      # known finding F12, by cause
                violations.append({'rule': 'C16/wrong-result', 'sig': 'positional-None-vs-keyword' if f12 else 'exception-swallowed',
                                   'detail': 'call #%d %s returned %r; the function raises for these arguments' % (idx, json.dumps(call), got)})
                break
            key = repr(fn.__cache_key__(*args, **kwargs))
            if falsy_result:
                ok_result = type(got) is type(want) and got == want
            else:
                ok_result = same_result(got, want, cfg['typed'])
            if not ok_result:
                prev = seen.get(key)
                sig = 'shared-entry'
                if separator_collision(got, want) or (prev is not None and separator_collision(prev[1], want_desc)):
                    sig = 'positional-None-vs-keyword'
                violations.append({'rule': 'C16/wrong-result', 'sig': sig,
                                   'detail': 'call #%d f(*%r, **%r) returned %r, the function returns %r (entry first stored for %r)' % (
                                       idx, args, kwargs, got, want, prev[1] if prev else None)})
                break
            prev = seen.get(key)
            fresh = prev is not None and (expire is None or (expire > 0 and sim.now < prev[0] + expire))
            if fresh:
                hits += 1
                if ran:
                    violations.append({'rule': 'C16/function-rerun-within-expiry', 'sig': wrap,
                                       'detail': 'call #%d %s ran the function again %.3fs after the entry was stored (expire %r)' % (
                                           idx, json.dumps(call), sim.now - prev[0], expire)})
                    break
            else:
                if not ran:
                    violations.append({'rule': 'C16/served-without-entry', 'sig': wrap,
                                       'detail': 'call #%d %s did not run the function although no live entry can exist (expire %r, stored %r, now %r)' % (
                                           idx, json.dumps(call), expire, prev[0] if prev else None, sim.now)})
                    break
                if prev is not None:
                    probes['expired_recompute'] = probes.get('expired_recompute', 0) + 1
                seen[key] = (sim.now, want_desc)
            if expire == 0 and store_len(store, wrap) != 0:
                violations.append({'rule': 'C16/expire-zero-stored', 'sig': wrap, 'detail': 'len == %d after call #%d' % (store_len(store, wrap), idx)})
                break
        close_store(store, wrap)
    finally:
        world.close()
    digest = hashlib.sha256(json.dumps(case, sort_keys=True).encode()).hexdigest()
    probes['hits'] = hits
    return {'violations': violations, 'digest': digest, 'steps': nops, 'switches': 0, 'fired': {}, 'probes': probes,
            'virtual_s': 0.0, 'nontrivial': hits > 0, 'outcome': {'calls': nops, 'hits': hits}}


def run_stampede(case):
    cfg = case['cfg']
    violations = []
    probes = {}
    world = World(case['seed'], sched=cfg['sched'], clock={'mode': 'frozen'}, yield_clock=False, step_cap=150000)
    sim = world.sim
    try:
        counter = {'n': 0}
        active = {}
        ignore = set(cfg['ignore'])

        def slow(args, kwargs):
            t = sim.current
            key = repr(describe(args, kwargs, ignore))
            if t is not None and '.t' in t.name:
                # reach probe only: the recipe's guard key expires after the last measured duration, so a slower
                # recomputation may legitimately overlap the next one (C16 does not state otherwise)
                active[key] = active.get(key, 0) + 1
                if active[key] > 1:
                    sim.probe('overlapping_recomputations')
            if cfg['cost']:
                sim.sleep(cfg['cost'])
            if t is not None and '.t' in t.name:
                active[key] -= 1

        store, fn = build(world, cfg, counter, slow=slow)
        multi = isinstance(fn, list)
        if multi:
            fn = fn[0]
        results = []
        calls = case['calls']
        order = [op['c'] for op in case['prog'] if op['op'] == 'call']

        def caller(i):
            def run():
                for j, gap in enumerate(cfg['gaps'][i]):
                    if gap:
                        sim.sleep(gap)
                    call = calls[order[(i * 7 + j) % len(order)]] if order else calls[0]
                    args = tuple(vals.dec(a) for a in call['args'])
                    kwargs = {k: vals.dec(v) for k, v in call['kwargs'].items()}
                    got = fn(*args, **kwargs)
                    want = describe(args, kwargs, ignore)
                    results.append((got, (0,) + want if multi else want, call))
                return True
            return run

        tasks = [sim.spawn('c%d' % i, 'p0', caller(i)) for i in range(cfg['ncallers'])]
        incident = None
        try:
            sim.run()
        except SimIncident as inc:
            incident = inc
        if incident is not None:
            if incident.kind in ('stepcap', 'deadlock'):
                violations.append({'rule': 'C16/no-progress', 'sig': incident.kind, 'detail': str(incident)[:200]})
            else:
                raise incident
        for t in sim.tasks:
            if t.exc is not None and not isinstance(t.exc, (Killed, Aborted)):
                violations.append({'rule': 'C16/unexpected-exception', 'sig': type(t.exc).__name__, 'detail': '%s: %s' % (t.name, str(t.exc)[:120])})
        for got, want, call in results:
            if not same_result(got, want, cfg['typed']):
                sig = 'positional-None-vs-keyword' if separator_collision(got, want) else 'stampede'
                violations.append({'rule': 'C16/wrong-result', 'sig': sig, 'detail': '%s returned %r, function returns %r' % (json.dumps(call), got, want)})
                break
        total = sum(len(g) for g in cfg['gaps'])
        if incident is None and len(results) != total:
            violations.append({'rule': 'C16/call-lost', 'sig': 'stampede', 'detail': '%d of %d calls returned' % (len(results), total)})
        probes['stampede_threads'] = sim.probes.get('thread_spawned', 0)
        probes['hits'] = max(0, len(results) - counter['n'])
        # the recompute thread closes its own connection ("with cache:"): no connection of a finished thread task stays open
        for con in list(sim.conns):
            if con.task is not None and '.t' in con.task.name and not con.closed:
                violations.append({'rule': 'C16/recompute-thread-connection-left-open', 'sig': 'stampede', 'detail': con.task.name})
                break
        res = {'violations': violations, 'digest': sim.digest(), 'steps': sim.step, 'switches': sim.switches, 'fired': {},
               'probes': dict(sim.probes, **probes), 'virtual_s': sim.now - sim._t0, 'picks': sim.picks[:500],
               'nontrivial': probes['hits'] > 0, 'outcome': {'calls': len(results), 'executions': counter['n'], 'threads': probes['stampede_threads']}}
        store.close()
    finally:
        world.close()
    return res


XCHILD = r'''
import json, shutil, sys, tempfile
sys.path.insert(0, %(src)r)
sys.path.insert(0, %(verif)r)
import diskcache
from simdc import vals
req = json.load(sys.stdin)
root = tempfile.mkdtemp(prefix='simdc-c16x-', dir=%(tmp)r)
try:
    cache = diskcache.Cache(root)
    def fn(*args, **kwargs):
        return None
    out = []
    for typed in (False, True):
        for wrapper in ('memoize', 'stampede'):
            if wrapper == 'memoize':
                f = cache.memoize(name='n', typed=typed, ignore=set(req['ignore']))(fn)
            else:
                f = diskcache.memoize_stampede(cache, 100, name='n', typed=typed, ignore=set(req['ignore']))(fn)
            for call in req['calls']:
                args = tuple(vals.dec(a) for a in call['args'])
                kwargs = {k: vals.dec(v) for k, v in call['kwargs'].items()}
                out.append(repr(f.__cache_key__(*args, **kwargs)))
    cache.close()
    json.dump(out, sys.stdout)
finally:
    shutil.rmtree(root, ignore_errors=True)
'''


def run_xproc(case):
    """The key of a call is the same in every process: computed in two fresh interpreters with different PYTHONHASHSEED
    (set and dict iteration order of strings differs between them)."""
    import subprocess
    import sys
    cfg = case['cfg']
    violations = []
    src = os.environ.get('DISKCACHE_SRC', '/repo')
    here = os.path.dirname(os.path.dirname(os.path.dirname(os.path.abspath(__file__))))
    tmp = '/dev/shm' if os.path.isdir('/dev/shm') else None
    req = {'calls': case['calls'], 'ignore': cfg['ignore']}
    outs = []
    for hs in cfg['hashseeds']:
        env = dict(os.environ, PYTHONHASHSEED=str(hs))
        p = subprocess.run([sys.executable, '-B', '-c', XCHILD % {'src': src, 'verif': here, 'tmp': tmp}], input=json.dumps(req),
                           capture_output=True, text=True, env=env, timeout=120)
        if p.returncode != 0:
            raise RuntimeError('memoize-key child failed: %s' % p.stderr[-500:])
        outs.append(json.loads(p.stdout))
    n = len(outs[0])
    for i in range(n):
        if outs[0][i] != outs[1][i]:
            call = case['calls'][i % len(case['calls'])]
            violations.append({'rule': 'C16/key-differs-between-processes', 'sig': 'kwargs' if call['kwargs'] else 'args',
                               'detail': 'call %s: key %s under PYTHONHASHSEED=%s, %s under %s' % (
                                   json.dumps(call), outs[0][i][:120], cfg['hashseeds'][0], outs[1][i][:120], cfg['hashseeds'][1])})
            break
    digest = hashlib.sha256(json.dumps(case, sort_keys=True).encode()).hexdigest()
    return {'violations': violations, 'digest': digest, 'steps': n, 'switches': 0, 'fired': {}, 'probes': {'keys_compared_across_interpreters': n},
            'virtual_s': 0.0, 'nontrivial': True, 'outcome': {'keys': n}}


def run_identity(case):
    """f(x, x) with one object in both places, then f(y, z) with equal but distinct objects (and the other way round): the same
    arguments, so the second call is served from the cache."""
    cfg = case['cfg']
    violations = []
    world = World(case['seed'], clock={'mode': 'frozen'}, yield_clock=False)
    try:
        dc = world.dc
        if cfg['target'] == 'fanout':
            store = dc.FanoutCache(world.path('f'), shards=3)
        elif cfg['target'] == 'index':
            store = dc.Index(world.path('i'))
        else:
            store = dc.Cache(world.path('c'))
        ran = []

        def fn(*args, **kwargs):
            ran.append(1)
            return ('result', args, sorted(kwargs.items()))
        wrapped = store.memoize(typed=cfg['typed'])(fn)
        first, second = cfg['first'], ('dist' if cfg['first'] == 'same' else 'same')
        a1 = vals.dec({first: [cfg['member'], 2]})
        a2 = vals.dec({second: [cfg['member'], 2]})
        if cfg['how'] == 'kwargs':
            r1 = wrapped(a1[0], b=a1[1])
            r2 = wrapped(a2[0], b=a2[1])
        else:
            r1 = wrapped(*a1)
            r2 = wrapped(*a2)
        if r1 != r2:
            violations.append({'rule': 'C16/wrong-result', 'sig': 'identity', 'detail': '%r != %r' % (r1, r2)})
        elif len(ran) != 1:
            violations.append({'rule': 'C16/function-rerun-within-expiry', 'sig': 'arguments-one-object-vs-equal-objects',
                               'detail': 'f(%r, %r) with %s, then with %s: the function ran %d times for two calls with the same arguments'
                                         % (a1[0], a1[1], 'one object in both places' if first == 'same' else 'two equal objects',
                                            'two equal objects' if first == 'same' else 'one object in both places', len(ran))})
        (getattr(store, 'close', None) or store.cache.close)()
    finally:
        world.close()
    digest = hashlib.sha256(json.dumps(case['cfg'], sort_keys=True).encode()).hexdigest()
    return {'violations': violations, 'digest': digest, 'steps': 2, 'switches': 0, 'fired': {}, 'probes': {'identity_pairs': 1},
            'virtual_s': 0.0, 'nontrivial': True, 'outcome': {'calls': 2}}


def run_callables(case):
    import functools
    cfg = case['cfg']
    violations = []
    world = World(case['seed'], clock={'mode': 'frozen'}, yield_clock=False)
    try:
        dc = world.dc
        if cfg['target'] == 'fanout':
            store = dc.FanoutCache(world.path('f'), shards=3)
        elif cfg['target'] == 'index':
            store = dc.Index(world.path('i'))
        else:
            store = dc.Cache(world.path('c'))

        def power(base, exponent):
            return base ** exponent

        class Scaler:
            def __init__(self, factor):
                self.factor = factor

            def __call__(self, x):
                return x * self.factor
        plain = [functools.partial(power, exponent=2), functools.partial(power, exponent=3)] if cfg['what'] == 'partial' else [Scaler(2), Scaler(10)]
        wrapped = []
        for n, fn in enumerate(plain):
            try:
                kw = {'name': 'callable-%d' % n} if cfg['named'] else {}
                wrapped.append(store.memoize(typed=cfg['typed'], **kw)(fn))
            except Exception:  # noqa
                wrapped.append(None)      # refused at decoration: nothing is memoized, nothing can be shared
        for x in (3, 4, 3):
            for fn, w in zip(plain, wrapped):
                if w is None:
                    continue
                got, want = w(x), fn(x)
                if got != want and not violations:
                    violations.append({'rule': 'C16/wrong-result', 'sig': 'callables-share-entries',
                                       'detail': 'memoized %s object called with %r returned %r, the object itself returns %r' % (cfg['what'], x, got, want)})
        (getattr(store, 'close', None) or store.cache.close)()
    finally:
        world.close()
    digest = hashlib.sha256(json.dumps(case['cfg'], sort_keys=True).encode()).hexdigest()
    return {'violations': violations, 'digest': digest, 'steps': 6, 'switches': 0, 'fired': {}, 'probes': {'callable_objects': 1},
            'virtual_s': 0.0, 'nontrivial': True, 'outcome': {'calls': 6}}


def run_case(case):
    if case['cfg']['wrap'] == 'callables':
        return run_callables(case)
    if case['cfg']['wrap'] == 'xproc':
        return run_xproc(case)
    if case['cfg']['wrap'] == 'identity':
        return run_identity(case)
    if case['cfg']['wrap'] == 'stampede':
        return run_stampede(case)
    return run_seq(case)


from .c03 import shrink_candidates  # noqa
