"""C17 - check(fix=True) repairs any out-of-band damage; plain check() only
reports.  A cache (or FanoutCache) with inline and file-backed items of every
stored mode is damaged behind the library's back; for each sampled cache the
subsets of damage kinds are enumerated (thorough) or sampled (quick).
DESIGN.md section 9, C17."""
import copy
import hashlib
import itertools
import json
import os
import random
import shutil
import sqlite3

from .. import vals
from ..audit import audit, listing
from ..ops import fp
from ..seq import RawView
from ..world import World

PROPERTY = 'C17'
LEVEL = 'fault_enumeration'
QUICK_S = 30
THOROUGH_S = 420
BATCH = 2
MIN_RUNS = 8
RULE = ('one evaluation = one sampled cache (Cache or FanoutCache shards; 4-14 items, in 8 % of the samples another 101-230 file-backed ones: inline and file-backed bytes / text / pickled '
        'values, tags, expiry) with one subset of the damage kinds {value file deleted, truncated, extended, unknown file added, empty '
        'directory added, item counter wrong, size counter wrong} applied out of band (1-2 instances each), the cache directory spelled plainly, with ./, //, a trailing slash, side/.. or relative to the working directory; for each sampled cache the empty subset (nothing may be reported) and all '
        '127 non-empty subsets are enumerated in the thorough tier and 10 are sampled in the quick tier; then check() (must report every '
        'damage item, change nothing), check(fix=True) (must report every damage item), check() again (must report nothing), and every '
        'remaining item is read back and compared; non-trivial = at least one damage item applied; distinct = SHA-256 of (cache '
        'program, damage list)')
RULE += ' ' + 'Unknown files also get hidden (dot-prefixed, .nfs), backup (~) names and hidden directories; two damage subsets of one seed in 23 run in child interpreters started with -W ignore and -W error::UserWarning.'
RULE += ' ' + 'Directory spellings include a symbolic link to the real directory.'
RULE += ' ' + "Directory spellings include '~/name' and '$VAR/name'; unknown files include copies of a live value file under its own name in another directory."
RULE += ' ' + 'One cache in seven holds a symbolic link to a directory elsewhere: nothing behind it is reported or touched.'
RULE += ' ' + 'A third of the FanoutCache runs keep a named cache, deque and index made through an earlier handle.'
RULE += ' ' + 'In one cache in eight a value sub-directory has been moved elsewhere and linked back (damage subsets without added files or empty directories): its items are undamaged.'
ASSUMPTIONS = ['damage is applied while no operation is in flight', 'truncation of text happens on a code-point boundary and extension appends ASCII, except in the low-rate probe of known finding F14']
PROBES = ('damage_items', 'fanout_runs', 'rows_removed_by_fix', 'f14_probe', 'dir_spelled_dot', 'dir_spelled_double', 'dir_spelled_trailing', 'dir_spelled_dotdot', 'dir_spelled_relative', 'dir_spelled_symlink', 'dir_spelled_tilde', 'dir_spelled_envvar', 'unknown_named_like_value_file', 'link_to_outside_directory', 'named_sub_objects', 'more_than_100_file_rows', 'journal_mode_not_wal', 'mass_loss', 'unknown_hidden_name')
TECHNIQUE = 'deterministic simulation with out-of-band damage injection: damage-kind subsets enumerated per sampled cache; report / convergence / undamaged-intact oracle with an independent auditor'
LEVEL_TEXT = ('fault enumeration over damage-kind subsets: caches are sampled by seed, and for each cache every non-empty subset of the '
              'seven damage kinds is applied (thorough tier); the oracle knows exactly what it damaged and compares the two warning lists per '
              'damage item, requires convergence (second check silent), readability of what remains and byte-identity of undamaged items.')
LEVEL_NOTE = 'trusted: the harness-side record of what was damaged, the independent auditor, tmpfs'

KINDS = ['delete', 'truncate', 'extend', 'unknown', 'emptydir', 'count', 'size']


def gen_case(seed, tier):
    rng = random.Random('%s/c17' % seed)
    fanout = rng.random() < 0.25
    mfs = rng.choice((8, 8, 64))
    items = []
    for i in range(rng.randint(4, 14)):
        r = rng.random()
        if r < 0.3:
            v = rng.choice((1, 'small', {'b': '0102'}, None, {'t': [1, 2]}))
        elif r < 0.6:
            v = {'big': ['bytes', rng.choice((mfs, 100, 3000)), 'b%d' % i]}
        elif r < 0.8:
            v = {'big': ['str', rng.choice((mfs, 100, 3000)), 's%d' % i]}
        else:
            v = {'big': ['pickle', rng.choice((100, 900)), 'p%d' % i]}
        op = {'k': 'k%d' % i if rng.random() < 0.8 else i, 'v': v}
        if rng.random() < 0.2:
            op['tag'] = 't'
        if rng.random() < 0.2:
            op['expire'] = 1000
        items.append(op)
    if rng.random() < 0.08:
        # more file-backed rows than one page of whatever paging check() may use (100 rows elsewhere in the library)
        for i in range(rng.choice((101, 150, 230))):
            items.append({'k': 'm%03d' % i, 'v': {'big': ['bytes', mfs + 4, 'm%d' % i]}})
        rng.shuffle(items)
        fanout = False
    mass = 0
    if rng.random() < 0.012:
        # a tmp cleaner has removed EVERY value file of a big cache, on an SQLite that binds at most 999 parameters per statement
        mass = rng.choice((1001, 1300))
        items = [{'k': 'm%04d' % i, 'v': {'big': ['bytes', mfs + 4, 'm%d' % i]}} for i in range(mass)] + items[:3]
        fanout = False
    cfg = {'fanout': fanout, 'shards': rng.choice((2, 3)), 'mfs': mfs, 'f14': rng.random() < 0.03, 'many': len(items) > 100, 'mass_loss': mass,
           # SQLite keeps other files next to cache.db under the other (documented) journal modes
           'journal': rng.choice(('wal', 'wal', 'wal', 'truncate', 'persist', 'delete')),
           # how the caller spells the directory: check() compares paths it builds from rows with paths it finds by walking
           'dirform': rng.choice(('plain', 'plain', 'plain', 'dot', 'double', 'trailing', 'dotdot', 'relative', 'relative-dot', 'symlink', 'tilde', 'envvar')),
           'outside_link': rng.random() < 0.15, 'named': rng.random() < 0.3}
    # one of the value sub-directories has been moved to another volume and linked back (what an administrator does when a disk
    # fills up): every file is where its row says, so nothing is damaged
    cfg['relocated'] = rng.random() if rng.random() < 0.12 else None
    return {'seed': seed, 'cfg': cfg, 'items': items, 'damage': []}


def gen_damage(rng, kinds):
    """Concrete damage plan for a subset of kinds: list of {kind, pick, arg}."""
    plan = []
    for kind in kinds:
        for _ in range(rng.choice((1, 1, 2))):
            plan.append({'kind': kind, 'pick': rng.random(), 'arg': rng.choice((1, 2, 3, 7)), 'where': rng.choice(('top', 'nested', 'beside')),
                         'cancel': rng.random() < 0.3, 'neg': rng.random() < 0.3, 'style': rng.choice((0, 0, 1, 2, 3, 4, 5))})
    return plan


def spelled(world, name, form):
    """The directory `name` under the scratch root, spelled the way `form` says (all forms name the same directory)."""
    if form == 'dot':
        return world.root + '/./' + name
    if form == 'double':
        return world.root + '//' + name
    if form == 'trailing':
        return world.path(name) + '/'
    if form == 'dotdot':
        os.makedirs(world.path('side'), exist_ok=True)
        return world.path('side', '..', name)
    if form == 'symlink':
        # the configured path is a symbolic link to where the data really lives (/var/cache/app -> /data/cache/app)
        os.makedirs(world.path(name + '-real'), exist_ok=True)
        if not os.path.islink(world.path(name)):
            os.symlink(world.path(name + '-real'), world.path(name))
        return world.path(name)
    if form == 'tilde':
        # '~/name' with HOME pointing at the scratch root (restored by run_case)
        os.environ['HOME'] = world.root
        os.chdir(world.root)
        return '~/' + name
    if form == 'envvar':
        os.environ['SIMDC_C17_ROOT'] = world.root
        os.chdir(world.root)
        return '$SIMDC_C17_ROOT/' + name
    if form in ('relative', 'relative-dot'):
        os.chdir(world.root)
        return name if form == 'relative' else './' + name
    return world.path(name)


def run_case(case):
    cfg = case['cfg']
    violations = []
    probes = {}
    world = World(case['seed'], clock={'mode': 'frozen'}, yield_clock=False)
    if cfg.get('mass_loss'):
        world.sim.var_limit = 999
    cwd = os.getcwd()
    home = os.environ.get('HOME')
    try:
        dc = world.dc
        form = cfg.get('dirform', 'plain')
        if form != 'plain':
            probes['dir_spelled_' + form.split('-')[0]] = 1
        jkw = {}
        if cfg.get('journal', 'wal') != 'wal':
            jkw = {'sqlite_journal_mode': cfg['journal']}
            probes['journal_mode_not_wal'] = 1
        named = None
        if cfg['fanout']:
            top = dc.FanoutCache(spelled(world, 'f', form), shards=cfg['shards'], disk_min_file_size=cfg['mfs'], **jkw)
            if cfg.get('named'):
                # named caches, deques and indexes live below the FanoutCache's directory, made through an EARLIER handle: they
                # are no debris of the sharded cache - nothing about them is reported, nothing of them is touched
                top.cache('users').set('u1', b'x' * 100)
                top.deque('jobs').extend(['j1', 'j2'])
                top.index('names')['n1'] = 'v' * 100
                spelling = top.directory
                top.close()
                top = dc.FanoutCache(spelling, shards=cfg['shards'])
                named = True
                probes['named_sub_objects'] = 1
            caches = list(top._shards)
            probes['fanout_runs'] = 1
        else:
            top = dc.Cache(spelled(world, 'c', form), disk_min_file_size=cfg['mfs'], **jkw)
            caches = [top]
        expected = {}
        for it in case['items']:
            k, v = vals.dec(it['k']), vals.dec(it['v'])
            top.set(k, v, expire=it.get('expire'), tag=it.get('tag'))
            expected[fp(k)] = (k, fp(v))
        if cfg.get('relocated') is not None and not any(d['kind'] in ('unknown', 'emptydir') for d in case['damage']):
            root = caches[0].directory
            subs = [d for d in sorted(os.listdir(root)) if len(d) == 2 and os.path.isdir(os.path.join(root, d))
                    and not os.path.islink(os.path.join(root, d))]
            if subs:
                d = subs[int(cfg['relocated'] * len(subs)) % len(subs)]
                elsewhere = world.path('other-volume-' + d)
                shutil.move(os.path.join(root, d), elsewhere)
                os.symlink(elsewhere, os.path.join(root, d))
                probes['value_directory_relocated_and_linked'] = 1
        # file-backed rows per cache
        damaged_keys = set()
        bumps = {}
        cancel = {}     # cache dir -> {'count': .., 'size': ..}: what check(fix=True) will change through its row repairs
        report = []     # (category, path substring) that must be reported
        used_files = set()
        if cfg.get('mass_loss'):
            # every value file of the 'm...' items is gone: each is reported as not found and its row removed by the repair
            probes['mass_loss'] = 1
            cache = caches[0]
            root = cache.directory
            rv = RawView(root)
            for r in rv.rows():
                if r[10] is None:
                    continue
                key = cache.disk.get(r[1], r[2])
                if not (isinstance(key, str) and key.startswith('m') and len(key) == 5):
                    continue
                full = os.path.join(root, r[10])
                acc = cancel.setdefault(root, {'count': 0, 'size': 0})
                acc['count'] -= 1
                acc['size'] -= os.path.getsize(full)
                os.remove(full)
                used_files.add((root, r[10]))
                damaged_keys.add(fp(key))
                report.append(('file not found', r[10]))
                expected.pop(fp(key), None)
            rv.close()
        for d in case['damage']:
            ci = int(d['pick'] * len(caches)) % len(caches)
            cache = caches[ci]
            root = cache.directory
            rv = RawView(root)
            rows = [r for r in rv.rows() if r[10] is not None and (root, r[10]) not in used_files]
            rv.close()
            kind = d['kind']
            if kind in ('delete', 'truncate', 'extend'):
                if not rows:
                    continue
                r = rows[int(d['pick'] * 7919) % len(rows)]
                rowid, dbkey, raw, mode, filename = r[0], r[1], r[2], r[9], r[10]
                used_files.add((root, filename))
                full = os.path.join(root, filename)
                key = cache.disk.get(dbkey, raw)
                if kind == 'delete':
                    acc = cancel.setdefault(root, {'count': 0, 'size': 0})
                    acc['count'] -= 1
                    acc['size'] -= os.path.getsize(full)
                    os.remove(full)
                    damaged_keys.add(fp(key))
                    report.append(('file not found', filename))
                    expected.pop(fp(key), None)
                    probes['rows_removed_by_fix'] = probes.get('rows_removed_by_fix', 0) + 1
                else:
                    size = os.path.getsize(full)
                    if kind == 'truncate':
                        if mode == 4 and not cfg.get('f14'):
                            # truncating a pickle makes it undecodable: that is known finding F14, probed separately
                            used_files.discard((root, filename))
                            continue
                        new = max(0, size - d['arg'])
                        os.truncate(full, new)
                    else:
                        with open(full, 'ab') as fh:
                            fh.write(b'Z' * d['arg'])
                        new = size + d['arg']
                    if new == size:
                        continue
                    cancel.setdefault(root, {'count': 0, 'size': 0})['size'] += new - size
                    report.append(('wrong file size', filename))
                    damaged_keys.add(fp(key))
                    if mode == 4 and kind == 'truncate':
                        probes['f14_probe'] = 1
                        expected[fp(key)] = (key, 'F14')
                    else:
                        expected[fp(key)] = (key, None)     # readable, content changed by the damage
            elif kind == 'unknown':
                if d['where'] == 'top':
                    rel = 'stray-%d.bin' % d['arg']
                elif d['where'] == 'nested' or not rows:
                    rel = os.path.join('zz', 'y%d' % d['arg'], 'orphan.val')
                else:
                    rel = os.path.join(os.path.dirname(rows[0][10]), 'orphan%d.val' % d['arg'])
                # what other tools leave behind: hidden names (a killed rsync's partial copy, .nfs files), backup and
                # extension-less names - whatever it is called, a file no row refers to is an unknown file
                style = d.get('style', d['arg'] % 5)
                head, base = os.path.split(rel)
                live = [r[10] for r in rows if r[10]]
                if style == 5 and live:
                    # a copy of a live value file under its own name somewhere else (a restored backup, `cp -r ab ab.bak`): the
                    # name is known, the file in this place is not
                    base = os.path.basename(live[0])
                    if d['where'] not in ('top', 'nested'):
                        head = os.path.dirname(live[0]) + '.bak'
                    probes['unknown_named_like_value_file'] = 1
                if style == 1:
                    base = '.' + base + '.Xy12Zq'
                elif style == 2:
                    base = '.nfs%012x' % d['arg']
                elif style == 3:
                    base = base + '~'
                elif style == 4 and d['where'] == 'nested':
                    head = os.path.join('.hidden', 'y%d' % d['arg'])
                rel = os.path.join(head, base)
                if style in (1, 2) or (style == 4 and d['where'] == 'nested'):
                    probes['unknown_hidden_name'] = 1
                full = os.path.join(root, rel)
                if os.path.exists(full):
                    continue
                os.makedirs(os.path.dirname(full), exist_ok=True)
                with open(full, 'wb') as fh:
                    fh.write(b'junk')
                report.append(('unknown file', rel))
            elif kind == 'emptydir':
                if d['where'] == 'top':
                    rel = 'emptytop%d' % d['arg']
                elif d['where'] == 'nested':
                    rel = os.path.join('ee', 'd%d' % d['arg'])
                else:
                    # a chain of empty directories deeper than the two levels value files use
                    rel = os.path.join('ee', 'd%d' % d['arg'], 'f', 'g%d' % (d['arg'] % 3))
                full = os.path.join(root, rel)
                if os.path.exists(full):
                    continue
                os.makedirs(full)
                report.append(('empty directory', rel))
            elif kind in ('count', 'size'):
                delta = -d['arg'] if d.get('neg') else d['arg']
                if d.get('cancel'):
                    # a counter that is wrong by exactly what the row repairs of this cache will change
                    c = cancel.get(root, {'count': 0, 'size': 0})[kind]
                    if c:
                        delta = c
                con = sqlite3.connect(os.path.join(root, 'cache.db'))
                con.execute('UPDATE Settings SET value = value + ? WHERE key = ?', (delta, kind))
                con.commit()
                con.close()
                bumps[(root, kind)] = bumps.get((root, kind), 0) + delta
        for (root, kind), net in sorted(bumps.items()):
            if net:
                report.append(('Settings.%s' % kind, ''))   # counter messages carry no path
        probes['damage_items'] = len(report)
        if cfg.get('many'):
            probes['more_than_100_file_rows'] = 1

        def snapshot():
            out = []
            for c in caches:
                rv = RawView(c.directory)
                out.append((rv.rows(), sorted(rv.settings().items()), listing(c.directory)))
                rv.close()
            return out

        def messages(fix):
            msgs = []
            for w in top.check(fix=fix):
                msgs.append(str(w.message))
            return msgs

        def covered(msgs, what):
            for cat, frag in report:
                ok = any(m.startswith(cat) and (frag in m) for m in msgs)
                if not ok:
                    violations.append({'rule': 'C17/damage-not-reported', 'sig': '%s:%s' % (what, cat),
                                       'detail': '%s did not report %s for %s; reported %s' % (what, cat, frag if len(frag) < 60 else '...', msgs[:6])})
                    return

        def nothing_else(msgs, what, allow_empty_dirs):
            for m in msgs:
                hit = any(m.startswith(cat) and frag in m for cat, frag in report)
                if hit:
                    continue
                if m.startswith('empty directory') and allow_empty_dirs:
                    continue
                if m.startswith('empty directory') and any(cat == 'file not found' for cat, _ in report) and what == 'check()':
                    # the directory of a deleted value file is empty already before any fix
                    continue
                if m.startswith('Settings.size') and any(cat in ('wrong file size', 'file not found') for cat, _ in report):
                    continue   # consequences of the same damage seen through the counters are acceptable extra reports
                if m.startswith('Settings.count') and any(cat == 'file not found' for cat, _ in report):
                    continue
                violations.append({'rule': 'C17/reported-without-damage', 'sig': '%s:%s' % (what, m.split(':')[0][:30]),
                                   'detail': '%s reported %r which is no part of the damage %s' % (what, m[:100], report)})
                return

        outside = None
        if cfg.get('outside_link'):
            # a symbolic link below the cache directory that leads to a directory elsewhere (exports, another shard, a mount):
            # what lies behind it is no part of the cache - nothing about it is reported and nothing of it is touched
            outside = world.path('outside-data')
            os.makedirs(os.path.join(outside, 'sub'), exist_ok=True)
            for rel in ('a.csv', os.path.join('sub', 'b.val')):
                with open(os.path.join(outside, rel), 'wb') as fh:
                    fh.write(b'user data ' + rel.encode())
            link = os.path.join(caches[-1].directory, 'exports')
            if not os.path.lexists(link):
                os.symlink(outside, link)
            probes['link_to_outside_directory'] = 1
        before = snapshot()
        first = messages(False)
        after = snapshot()
        if before != after:
            violations.append({'rule': 'C17/plain-check-changed-something', 'sig': 'check()',
                               'detail': 'rows, settings or files differ after check() without fix'})
        covered(first, 'check()')
        if not violations:
            nothing_else(first, 'check()', False)
        if not violations:
            fixed = messages(True)
            covered(fixed, 'check(fix=True)')
            if not violations:
                nothing_else(fixed, 'check(fix=True)', True)
        if not violations:
            second = messages(False)
            if second:
                violations.append({'rule': 'C17/not-converged', 'sig': ','.join(sorted({m.split(':')[0][:30] for m in second})),
                                   'detail': 'after check(fix=True) a second check() reports %s' % (second[:4],)})
        if not violations:
            present = {fp(k): k for k in top}
            for kfp, (k, want) in sorted(expected.items()):
                if kfp not in present:
                    violations.append({'rule': 'C17/undamaged-item-lost', 'sig': 'missing', 'detail': 'key %s is gone after the repair' % kfp})
                    break
                try:
                    got = top.get(k, default='<absent>')
                except Exception as exc:  # noqa
                    if want == 'F14' or kfp in damaged_keys:
                        violations.append({'rule': 'C17/remaining-item-unreadable', 'sig': 'truncated-undecodable-value',
                                           'detail': 'key %s raises %s after check(fix=True)' % (kfp, type(exc).__name__)})
                    else:
                        violations.append({'rule': 'C17/remaining-item-unreadable', 'sig': 'undamaged:' + type(exc).__name__,
                                           'detail': 'key %s raises %s' % (kfp, type(exc).__name__)})
                    break
                if want not in (None, 'F14') and fp(got) != want:
                    violations.append({'rule': 'C17/undamaged-item-changed', 'sig': 'value', 'detail': 'key %s: %s != %s' % (kfp, fp(got), want)})
                    break
            for kfp in present:
                if kfp not in expected:
                    violations.append({'rule': 'C17/removed-item-still-present', 'sig': 'key', 'detail': kfp})
                    break
        if not violations:
            for c in caches:
                problems, empties, info = audit(c.directory)
                if problems:
                    violations.append({'rule': 'C17/audit-after-repair', 'sig': ','.join(sorted({p[0] for p in problems})), 'detail': str(problems[:3])})
        if named and not violations:
            left = (top.cache('users').get('u1'), list(top.deque('jobs')), dict(top.index('names')))
            if left != (b'x' * 100, ['j1', 'j2'], {'n1': 'v' * 100}):
                violations.append({'rule': 'C17/undamaged-item-changed', 'sig': 'named-sub-objects',
                                   'detail': 'named cache / deque / index below the FanoutCache after the checks: %s' % (vals.brief(left),)})
        if outside is not None and not violations:
            left = sorted(os.path.relpath(os.path.join(r, f), outside) for r, _, fs in os.walk(outside) for f in fs)
            if left != ['a.csv', os.path.join('sub', 'b.val')]:
                violations.append({'rule': 'C17/files-outside-the-cache-touched', 'sig': 'symlinked-directory',
                                   'detail': 'behind a symbolic link below the cache directory: %s left of a.csv, sub/b.val' % (left,)})
        top.close()
    finally:
        os.chdir(cwd)
        if home is None:
            os.environ.pop('HOME', None)
        else:
            os.environ['HOME'] = home
        os.environ.pop('SIMDC_C17_ROOT', None)
        world.close()
    digest = hashlib.sha256(json.dumps(case, sort_keys=True).encode()).hexdigest()
    return {'violations': violations, 'digest': digest, 'steps': len(case['items']) + len(case['damage']), 'switches': 0,
            'fired': {'damage': probes.get('damage_items', 0)}, 'probes': probes, 'virtual_s': 0.0,
            'nontrivial': probes.get('damage_items', 0) > 0, 'outcome': {'damage_items': probes.get('damage_items', 0)}}


def runner_guarded(pid, fn, case):
    from ..runner import guarded
    return guarded(pid, fn, case)


def run_seed(seed, tier):
    case = gen_case(seed, tier)
    rng = random.Random('%s/c17-damage' % seed)
    subsets = []
    for n in range(1, len(KINDS) + 1):
        subsets.extend(itertools.combinations(KINDS, n))
    if tier == 'quick':
        subsets = rng.sample(subsets, 10)
    subsets.insert(0, ())      # no damage at all: check() must report nothing and change nothing
    if case['cfg'].get('mass_loss'):
        subsets = [(), tuple(rng.sample(KINDS, 2))]      # the mass loss itself is the damage; these caches are slow to build
    results = []
    for i, kinds in enumerate(subsets):
        c = copy.deepcopy(case)
        c['damage'] = gen_damage(rng, kinds)
        if seed % 23 == 7 and i in (1, 2) and '_env' not in c:
            # the report is made of Python warnings: a process that silences warnings, or turns them into errors, gets the
            # same report and the same repair (two damage subsets of one seed in 23 run in such an interpreter)
            c['_env'] = ('wignore', 'werror')[i - 1]
        r = runner_guarded(PROPERTY, run_case, copy.deepcopy(c))
        r['case'] = c
        r['first_of_seed'] = i == 0
        results.append(r)
        if r['violations']:
            break
    results[0].setdefault('extra', {})['damage_subsets_enumerated'] = len(subsets)
    return results


def shrink_candidates(case):
    for i in range(len(case['damage'])):
        c = copy.deepcopy(case)
        del c['damage'][i]
        yield c
    for i in reversed(range(len(case['items']))):
        c = copy.deepcopy(case)
        del c['items'][i]
        yield c
