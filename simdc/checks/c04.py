"""C04 - items are visible until their expiry time passes and never
afterwards; expire() and lazy culling remove exactly what they may.
Same machine as C03 with an expiry-heavy profile, exact ties, many items
sharing one expiry instant and clients in processes with skewed clocks.
DESIGN.md section 9, C04."""
import hashlib
import json
import random

from .. import seqcache

PROPERTY = 'C04'
LEVEL = 'exploration'
QUICK_S = 30
THOROUGH_S = 420
BATCH = 4
RULE = ('one evaluation = one seeded history dominated by operations that read or write expiry (set/add/touch/incr with ttl in '
        '{None, 1e-9, 0, negative, 1, 5, huge}, get/contains/pop/delete/pull/peek/peekitem, expire, cull, culling writes) '
        'interleaved with clock steps {0, 1e-9, ..., 1e6} (exact ties reachable), bulk inserts of 101-230 items sharing one '
        'expiry time, issued through 1-3 handles in simulated processes whose clocks are skewed; oracle: live <=> expire_time > '
        'reader\'s clock, expire() exact, lazy cull legality; non-trivial = at least one item expired during the run; distinct = '
        'SHA-256 of (configuration, program)')
RULE += ' ' + "One seed in 101 lets a fresh interpreter (another operating-system process) store or touch the items that the check's process must then expire."
RULE += ' ' + 'One seed in 101 runs expire() / cull() over 101-350 expired items while every clock reading is 4 ms - 30 s after the last.'
RULE += ' ' + 'One bulk block in twelve has 1001-1200 expired items under an SQLite limited to 999 parameters per statement.'
ASSUMPTIONS = ['clock frozen within one operation; per-process skew is constant during a run']
PROBES = ('cull_expired', 'page_boundary_crossed', 'expired_seen', 'other_os_process', 'slow_clock')
TECHNIQUE = 'deterministic simulation with a virtual clock (frozen ticks, jumps, per-process skew) + model-based checking of every lookup against the liveness rule'
LEVEL_TEXT = ('seeded exploration of clock trajectories x ttl classes x populations under a simulated clock; each result is '
              'compared with the reference model whose only rule for visibility is expire_time > now. The property is about '
              'time, which only a controlled clock can drive to ties, jumps and skew.')
LEVEL_NOTE = 'trusted: reference model, SQLite, tmpfs; the skew is applied at the time seam of each simulated process'


def gen_case(seed, tier):
    rng = random.Random('%s/c04' % seed)
    if seed % 101 == 18:
        # a slow machine (each clock reading is milliseconds after the last) and more expired items than one page: however long
        # it takes, expire() / cull() remove every expired item and say how many
        return {'seed': seed, 'cfg': {'kind': 'slowclock', 'n': rng.choice((101, 250, 350)), 'step': rng.choice((0.004, 0.5, 30.0)),
                                      'timeout': rng.choice((0.01, 0.01, 60)), 'sweep': rng.choice(('expire', 'cull')),
                                      'fanout': rng.random() < 0.4}, 'prog': []}
    if seed % 101 == 17:
        # housekeeping in one operating-system process, writers in another (a fresh interpreter): items the other process
        # stored with an expiry, or shortened with touch, are removed by this process's expire() / cull() once they are due
        return {'seed': seed, 'cfg': {'kind': 'xproc', 'n': rng.choice((1, 3, 5)), 'ttl': rng.choice((5, 60)), 'mfs': rng.choice((8, 2 ** 15)),
                                      'sweep': rng.choice(('expire', 'cull')), 'how': rng.choice(('set', 'set', 'touch')),
                                      'first_sweep': rng.choice((True, True, False))}, 'prog': []}
    settings = seqcache.gen_settings(rng, 'c04')
    n_ops = rng.choice((20, 40, 80)) if tier == 'quick' else rng.choice((30, 80, 200))
    prog = seqcache.gen_prog(rng, n_ops, 'expiry', settings['disk_min_file_size'])
    if settings['cull_limit'] == 0:
        prog = seqcache.add_blocks(rng, prog)      # transact() blocks in which time passes (no lazy culling in these runs)
    if rng.random() < 0.3:
        # many items sharing one expiry instant (more than one 100-row page), the clock moved past it, then a bulk removal
        n = rng.choice((101, 130, 205, 250))
        big_backlog = rng.random() < 0.08
        if big_backlog:
            n = rng.choice((1001, 1200))      # more expired items than an SQLite with the old 999-parameter limit binds at once
        ttl = rng.choice((1, 5, 0, -1))
        base = 500000
        block = [{'op': 'set', 'k': base + j, 'v': j, 'expire': ttl} for j in range(n)]
        if rng.random() < 0.5:
            block += [{'op': 'set', 'k': base + n + j, 'v': j, 'expire': ttl + rng.choice((1, 100))} for j in range(rng.choice((3, 40)))]
        block.append({'op': 'advance', 'dt': rng.choice((0, 1, 5.5, 6, 1000))})
        block.append({'op': rng.choice(('expire', 'expire', 'cull', 'len'))})
        at = rng.randrange(len(prog) + 1)
        prog[at:at] = block
    nproc = rng.choice((1, 1, 2, 3))
    skews = [0.0] + [rng.choice((-30.0, -1.0, -1e-6, 0.5, 5.0, 3600.0)) for _ in range(nproc - 1)]
    if nproc > 1:
        # the statistics switch is cached per handle (documented: settings are
        # lazy-loaded attributes, refreshed by reset()); toggling it through one
        # handle does not reach the others, so with several handles the
        # program leaves it alone (hit/miss counting itself is C03's).
        prog = [op for op in prog if op['op'] != 'stats']
        for op in prog:
            if op['op'] not in ('advance', 'reopen'):
                op['proc'] = rng.randrange(nproc)
    cfg = {'settings': settings, 'profile': 'expiry', 'skews': skews, 'epoch': rng.choice((1600000000.0, 1600000000.25, 5.0))}
    if any(op.get('k') == 500000 + 1000 for op in prog):
        cfg['var_limit'] = 999
    return {'seed': seed, 'cfg': cfg, 'prog': prog}


def run_xproc(case):
    from .. import xproc
    from ..world import World
    from ..seq import RawView
    cfg = case['cfg']
    violations = []
    world = World(case['seed'], clock={'mode': 'frozen', 'epoch': 1600000000.0}, yield_clock=False)
    sim = world.sim
    try:
        path = world.path('c')
        cache = world.dc.Cache(path, disk_min_file_size=cfg['mfs'], cull_limit=0)
        cache.set('old', 1, expire=5)
        for i in range(cfg['n']):
            cache.set('t%d' % i, 'kept', expire=10 ** 6)      # for the touch variant: items the other process shortens
        sim.advance(10)
        if cfg['first_sweep']:
            first = getattr(cache, cfg['sweep'])()
            if first != 1:
                violations.append({'rule': 'C04/expired-not-removed', 'sig': 'first-sweep', 'detail': '%s() -> %r, one item was due' % (cfg['sweep'], first)})
        if cfg['how'] == 'set':
            ops = [{'op': 'set', 'k': 'w%d' % i, 'v': {'bytes': 40} if i % 2 else i, 'expire': cfg['ttl']} for i in range(cfg['n'])]
        else:
            ops = [{'op': 'touch', 'k': 't%d' % i, 'expire': cfg['ttl']} for i in range(cfg['n'])]
        got = xproc.run_child(path, ops, clock=sim.now)
        if got != [True] * cfg['n']:
            violations.append({'rule': 'C04/other-process-write-failed', 'sig': cfg['how'], 'detail': str(got)})
        sim.advance(cfg['ttl'] + 1)
        due = cfg['n'] + (0 if cfg['first_sweep'] else 1)
        removed = getattr(cache, cfg['sweep'])()
        raw = RawView(path)
        left = len(raw.rowids())
        raw.close()
        want_left = cfg['n'] if cfg['how'] == 'set' else 0
        if (removed != due or left != want_left) and not violations:
            violations.append({'rule': 'C04/expired-not-removed', 'sig': 'written-by-another-process',
                               'detail': '%d items stored / shortened by another process are due; %s() -> %r, %d rows left (expected %d removed, %d left)'
                                         % (cfg['n'], cfg['sweep'], removed, left, due, want_left)})
        cache.close()
    finally:
        world.close()
    digest = hashlib.sha256(json.dumps(case['cfg'], sort_keys=True).encode()).hexdigest()
    return {'violations': violations, 'digest': digest, 'steps': 4, 'switches': 0, 'fired': {}, 'probes': {'other_os_process': 1},
            'virtual_s': 0.0, 'nontrivial': True, 'outcome': {'ops': 4}}


def run_slowclock(case):
    from ..world import World
    from ..seq import RawView
    cfg = case['cfg']
    violations = []
    world = World(case['seed'], clock={'mode': 'frozen', 'epoch': 1600000000.0}, yield_clock=False)
    sim = world.sim
    try:
        dc = world.dc
        if cfg['fanout']:
            cache = dc.FanoutCache(world.path('f'), shards=1, cull_limit=0)
            inner = cache._shards[0]
        else:
            cache = inner = dc.Cache(world.path('c'), timeout=cfg['timeout'], cull_limit=0)
        for i in range(cfg['n']):
            cache.set('k%03d' % i, i, expire=1)
        cache.set('live', 1, expire=10 ** 9)
        sim.advance(3600)
        sim.clockcfg = dict(sim.clockcfg, mode='slow', step=cfg['step'])
        removed = getattr(cache, cfg['sweep'])()
        sim.clockcfg = dict(sim.clockcfg, mode='frozen')
        raw = RawView(inner.directory)
        left = len(raw.rowids())
        raw.close()
        if removed != cfg['n'] or left != 1:
            violations.append({'rule': 'C04/expired-not-removed', 'sig': 'slow-clock',
                               'detail': '%d expired items, every clock reading %.3f s after the last (timeout %s): %s() -> %r, %d rows left (expected 1)'
                                         % (cfg['n'], cfg['step'], cfg['timeout'], cfg['sweep'], removed, left)})
        cache.close()
    finally:
        world.close()
    digest = hashlib.sha256(json.dumps(case['cfg'], sort_keys=True).encode()).hexdigest()
    return {'violations': violations, 'digest': digest, 'steps': cfg['n'], 'switches': 0, 'fired': {}, 'probes': {'slow_clock': 1, 'page_boundary_crossed': 1},
            'virtual_s': 0.0, 'nontrivial': True, 'outcome': {'ops': cfg['n']}}


def run_case(case):
    if case['cfg'].get('kind') == 'slowclock':
        return run_slowclock(case)
    if case['cfg'].get('kind') == 'xproc':
        return run_xproc(case)
    seen = {'n': 0}

    def on_step(cache, model, op, got, violations):
        if model.culled_expired:
            seen['n'] = model.culled_expired

    violations, stats = seqcache.run_prog(case, PROPERTY, on_step=on_step)
    digest = hashlib.sha256(json.dumps([case['cfg'], case['prog']], sort_keys=True).encode()).hexdigest()
    stats['probes']['expired_seen'] = seen['n']
    return {'violations': violations, 'digest': digest, 'steps': stats['ops'], 'switches': 0, 'fired': {},
            'probes': stats['probes'], 'virtual_s': stats.get('virtual_s', 0.0), 'nontrivial': seen['n'] > 0 or stats['ops'] >= 10,
            'outcome': {'ops': stats['ops'], 'expired_removed': seen['n']}}


from .c03 import shrink_candidates  # noqa
