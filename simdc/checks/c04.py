"""C04 - items are visible until their expiry time passes and never
afterwards; expire() and lazy culling remove exactly what they may.
Same machine as C03 with an expiry-heavy profile, exact ties, many items
sharing one expiry instant and clients in processes with skewed clocks.
DESIGN.md section 9, C04."""
import hashlib
import json
import random

from .. import seqcache

PROPERTY = 'C04'
LEVEL = 'exploration'
QUICK_S = 30
THOROUGH_S = 420
BATCH = 4
RULE = ('one evaluation = one seeded history dominated by operations that read or write expiry (set/add/touch/incr with ttl in '
        '{None, 1e-9, 0, negative, 1, 5, huge}, get/contains/pop/delete/pull/peek/peekitem, expire, cull, culling writes) '
        'interleaved with clock steps {0, 1e-9, ..., 1e6} (exact ties reachable), bulk inserts of 101-230 items sharing one '
        'expiry time, issued through 1-3 handles in simulated processes whose clocks are skewed; oracle: live <=> expire_time > '
        'reader\'s clock, expire() exact, lazy cull legality; non-trivial = at least one item expired during the run; distinct = '
        'SHA-256 of (configuration, program)')
ASSUMPTIONS = ['clock frozen within one operation; per-process skew is constant during a run']
PROBES = ('cull_expired', 'page_boundary_crossed', 'expired_seen')
TECHNIQUE = 'deterministic simulation with a virtual clock (frozen ticks, jumps, per-process skew) + model-based checking of every lookup against the liveness rule'
LEVEL_TEXT = ('seeded exploration of clock trajectories x ttl classes x populations under a simulated clock; each result is '
              'compared with the reference model whose only rule for visibility is expire_time > now. The property is about '
              'time, which only a controlled clock can drive to ties, jumps and skew.')
LEVEL_NOTE = 'trusted: reference model, SQLite, tmpfs; the skew is applied at the time seam of each simulated process'


def gen_case(seed, tier):
    rng = random.Random('%s/c04' % seed)
    settings = seqcache.gen_settings(rng, 'c04')
    n_ops = rng.choice((20, 40, 80)) if tier == 'quick' else rng.choice((30, 80, 200))
    prog = seqcache.gen_prog(rng, n_ops, 'expiry', settings['disk_min_file_size'])
    if settings['cull_limit'] == 0:
        prog = seqcache.add_blocks(rng, prog)      # transact() blocks in which time passes (no lazy culling in these runs)
    if rng.random() < 0.3:
        # many items sharing one expiry instant (more than one 100-row page), the clock moved past it, then a bulk removal
        n = rng.choice((101, 130, 205, 250))
        ttl = rng.choice((1, 5, 0, -1))
        base = 500000
        block = [{'op': 'set', 'k': base + j, 'v': j, 'expire': ttl} for j in range(n)]
        if rng.random() < 0.5:
            block += [{'op': 'set', 'k': base + n + j, 'v': j, 'expire': ttl + rng.choice((1, 100))} for j in range(rng.choice((3, 40)))]
        block.append({'op': 'advance', 'dt': rng.choice((0, 1, 5.5, 6, 1000))})
        block.append({'op': rng.choice(('expire', 'expire', 'cull', 'len'))})
        at = rng.randrange(len(prog) + 1)
        prog[at:at] = block
    nproc = rng.choice((1, 1, 2, 3))
    skews = [0.0] + [rng.choice((-30.0, -1.0, -1e-6, 0.5, 5.0, 3600.0)) for _ in range(nproc - 1)]
    if nproc > 1:
        # the statistics switch is cached per handle (documented: settings are
        # lazy-loaded attributes, refreshed by reset()); toggling it through one
        # handle does not reach the others, so with several handles the
        # program leaves it alone (hit/miss counting itself is C03's).
        prog = [op for op in prog if op['op'] != 'stats']
        for op in prog:
            if op['op'] not in ('advance', 'reopen'):
                op['proc'] = rng.randrange(nproc)
    return {'seed': seed, 'cfg': {'settings': settings, 'profile': 'expiry', 'skews': skews,
                                  'epoch': rng.choice((1600000000.0, 1600000000.25, 5.0))}, 'prog': prog}


def run_case(case):
    seen = {'n': 0}

    def on_step(cache, model, op, got, violations):
        if model.culled_expired:
            seen['n'] = model.culled_expired

    violations, stats = seqcache.run_prog(case, PROPERTY, on_step=on_step)
    digest = hashlib.sha256(json.dumps([case['cfg'], case['prog']], sort_keys=True).encode()).hexdigest()
    stats['probes']['expired_seen'] = seen['n']
    return {'violations': violations, 'digest': digest, 'steps': stats['ops'], 'switches': 0, 'fired': {},
            'probes': stats['probes'], 'virtual_s': stats.get('virtual_s', 0.0), 'nontrivial': seen['n'] > 0 or stats['ops'] >= 10,
            'outcome': {'ops': stats['ops'], 'expired_removed': seen['n']}}


from .c03 import shrink_candidates  # noqa
