"""C15 - Lock, RLock and BoundedSemaphore exclude across threads and
processes; barrier runs functions under the same exclusion.  2-4 contenders
run acquire / critical section / release loops under the seeded scheduler; an
independent witness counts holders at every step.  DESIGN.md section 9, C15."""
import json
import random

from ..kernel import SimIncident, Killed, Aborted
from ..world import World
from ..audit import audit

PROPERTY = 'C15'
LEVEL = 'exploration'
QUICK_S = 30
THOROUGH_S = 420
BATCH = 8
RULE = ('one evaluation = one seeded simulated run of 2-4 contenders (threads sharing one cache object / own objects in one process / '
        'separate simulated processes; Cache or FanoutCache) each looping acquire -> critical section (seam yields + virtual sleep) -> '
        'release on a Lock, RLock (nested 1-3 deep), BoundedSemaphore (value 1-3) or barrier-wrapped functions (two different functions under one barrier name, in some runs next to the primitive itself on that name), with optional '
        'release-without-acquire attempts; each contender uses explicit acquire/release, a with statement, or a fresh handle object for every acquire and release (dropped and collected in between), and in seeded rounds the critical section (or the barrier-wrapped function) raises; a witness independent of the cache counts holders on every entry; the run must finish, the exception of the section must come out unchanged and the stored state must say free at the end '
        '(every waiter eventually acquires); non-trivial = at least one context switch inside a critical section or a contended '
        'acquire; distinct = SHA-256 of the seam event log')
RULE += ' ' + 'In one run in seven every contender first takes an uncontended primitive of the same kind and key on a cache of its own and keeps it throughout.'
RULE += ' ' + 'In a fifth of the runs Lock and BoundedSemaphore releases are made under another thread identity than the acquire.'
RULE += ' ' + 'One run in sixteen builds the primitive with expire=10 (holders at t=0-1 and t=9-12, a third contender at 10.5).'
RULE += ' ' + 'Two barrier runs in five rely on the default name (every contender wraps its own closure of one qualified name).'
ASSUMPTIONS = ['polling acquire loops (1 ms virtual sleeps) are run with critical sections of at most a few virtual milliseconds',
               'lock keys carry no expiry in this check']
PROBES = ('contended_acquire', 'nested_rlock', 'bad_release_refused', 'lock_wait', 'barrier_calls', 'with_statement', 'cs_raised', 'barrier_mixed_with_primitive', 'fresh_handles', 'json_disk', 'long_section', 'outer_same_key', 'released_by_another_thread', 'leased', 'barrier_default_name')
TECHNIQUE = 'deterministic simulation: seeded schedules of contenders with virtual-time polling; holder-count witness invariant checked at every critical-section entry; bounded-progress check'
LEVEL_TEXT = ('seeded exploration of contender interleavings at seam granularity (and source lines for shared objects) with a witness '
              'invariant (holders <= 1, <= value for the semaphore, re-entrancy only by the owner) evaluated during the run, plus '
              'progress within the step bound once holders release.')
LEVEL_NOTE = 'trusted: simulator kernel, SQLite; processes are simulated (distinct pids through the os.getpid seam)'


def gen_case(seed, tier):
    rng = random.Random('%s/c15' % seed)
    kind = rng.choice(('lock', 'lock', 'rlock', 'rlock', 'sem', 'sem', 'barrier'))
    n = rng.choice((2, 2, 3, 4))
    cfg = {
        'kind': kind, 'n': n, 'iters': rng.randint(1, 3), 'value': rng.choice((1, 2, 3)),
        'topology': rng.choice(('shared', 'own', 'procs')), 'target': rng.choice(('cache', 'cache', 'fanout')),
        'nest': rng.choice((1, 1, 2, 3)), 'cs_sleep': rng.choice((0.0, 0.0005, 0.002, 0.004)), 'cs_yields': rng.randint(0, 3),
        'bad_release': rng.random() < 0.25, 'lock_factory': rng.choice(('Lock', 'RLock', 'BoundedSemaphore')),
        'sched': rng.choice(({'kind': 'uniform'}, {'kind': 'sticky', 'p': rng.choice((0.5, 0.9))},
                             {'kind': 'pct', 'd': rng.choice((1, 3)), 'horizon': rng.choice((100, 400))})),
        'clock': {'mode': rng.choice(('frozen', 'tick'))}, 'line_p': 0.0, 'shards': rng.choice((1, 2, 3)),
        'yield_clock': rng.random() < 0.5, 'post_stmt_yield': rng.random() < 0.3,
        'think': [rng.choice((0.0, 0.0, 0.001, 0.003)) for _ in range(n)],
        # 'forked': the primitive (and its cache object) is built once, before the workers exist, and inherited by worker
        # processes whose main threads all have the same thread id - what fork() gives
        'forked': rng.random() < 0.25,
    }
    # how each contender uses the primitive (explicit acquire/release or a with statement), and in which of its rounds the
    # critical section raises: the primitive must be released exactly once on that path too
    # barrier: contenders call two DIFFERENT functions wrapped under one barrier name, and (in some runs) the last contender
    # uses the primitive itself on that name - all of them are one exclusion group
    cfg['barrier_mix'] = rng.random() < 0.4
    cfg['barrier_noname'] = rng.random() < 0.4
    if rng.random() < 0.04 and kind in ('lock', 'rlock', 'sem'):
        # one very long critical section on a machine that oversleeps (every sleep takes at least 50 ms): the waiters poll a
        # couple of thousand times and still get their turn
        cfg['oversleep'] = 0.05
        cfg['long_section'] = rng.choice((105.0, 120.0))
        cfg['n'], cfg['iters'], cfg['nest'], cfg['forked'] = 2, 1, 1, False
        cfg['think'] = [0.0, 0.5]
        cfg['clock'] = {'mode': 'frozen'}
        cfg['line_p'] = 0.0
        if kind == 'sem':
            cfg['value'] = 1
    if rng.random() < 0.06 and kind in ('lock', 'rlock', 'sem'):
        # primitives built with expire= (a lease, so that a crashed holder does not block for ever): every acquire starts a
        # lease of its own.  One holder early on, a second one nine seconds later for three seconds, a third contender in between
        cfg['expire'] = 10
        cfg['n'], cfg['iters'], cfg['nest'], cfg['forked'], cfg['bad_release'] = 3, 1, 1, False, False
        n = 3
        cfg.pop('long_section', None)
        cfg.pop('oversleep', None)
        cfg['think'] = [0.0, 9.0, 10.5]
        cfg['cs_sleeps'] = [1.0, 3.0, 0.5]
        cfg['clock'] = {'mode': 'frozen'}
        if kind == 'sem':
            cfg['value'] = 1
    cfg['outer_same_key'] = rng.random() < 0.15
    cfg['handoff'] = rng.random() < 0.2
    if cfg.get('expire'):
        cfg['outer_same_key'] = cfg['handoff'] = False      # (an outer primitive held for the whole run would outlive its own lease)
    cfg['json_disk'] = rng.random() < 0.2      # the primitives keep their state as cache values: any Disk must do
    # 'handles': every acquire and every release goes through a fresh Lock / RLock / BoundedSemaphore object on the same key -
    # the state lives in the cache, the objects are interchangeable handles that may be dropped at any time
    cfg['style'] = [rng.choice(('explicit', 'with', 'handles')) for _ in range(n)]
    cfg['raises'] = [[rng.random() < 0.2 for _ in range(cfg['iters'])] for _ in range(n)]
    if cfg['topology'] == 'shared':
        cfg['line_p'] = rng.choice((0.0, 0.0, 0.05))
    return {'seed': seed, 'cfg': cfg}


class CsError(Exception):
    """Raised inside the critical section in the rounds marked in cfg['raises']."""


def run_case(case):
    cfg = case['cfg']
    violations = []
    probes = {}
    world = World(case['seed'], sched=cfg['sched'], clock=cfg['clock'], step_cap=120000, line_p=cfg['line_p'],
                  yield_clock=cfg['yield_clock'], post_stmt_yield=cfg['post_stmt_yield'])
    sim = world.sim
    sim.min_sleep = cfg.get('oversleep', 0.0)
    incident = None
    try:
        dc = world.dc
        path = world.path('c')

        disk_kw = {'disk': dc.JSONDisk} if cfg.get('json_disk') else {}
        if disk_kw:
            probes['json_disk'] = 1

        def make_cache():
            if cfg['target'] == 'fanout':
                return dc.FanoutCache(path, shards=cfg['shards'], eviction_policy='none', **disk_kw)
            return dc.Cache(path, eviction_policy='none', **disk_kw)

        main = make_cache()
        kind = cfg['kind']
        limit = cfg['value'] if kind == 'sem' or (kind == 'barrier' and cfg['lock_factory'] == 'BoundedSemaphore') else 1
        w = {'depth': {}, 'max': 0, 'entries': 0, 'cs_switch': 0}

        def enter(name):
            others = [o for o, dpt in w['depth'].items() if dpt > 0 and o != name]
            mine = w['depth'].get(name, 0)
            if mine == 0 and len(others) + 1 > limit:
                violations.append({'rule': 'C15/exclusion', 'sig': kind,
                                   'detail': '%s entered while %s hold it (limit %d)' % (name, others, limit)})
            if mine > 0 and kind not in ('rlock',):
                pass
            w['depth'][name] = mine + 1
            w['entries'] += 1
            holders = sum(1 for dpt in w['depth'].values() if dpt > 0)
            w['max'] = max(w['max'], holders)

        def leave(name):
            w['depth'][name] -= 1

        def critical(name):
            before = sim.switches
            for _ in range(cfg['cs_yields']):
                sim.seam('cs', name)
            if cfg.get('long_section') and name == 'c0':
                sim.sleep(cfg['long_section'])
                probes['long_section'] = 1
            if cfg.get('cs_sleeps'):
                sim.sleep(cfg['cs_sleeps'][int(name[1:]) % len(cfg['cs_sleeps'])])
                probes['leased'] = 1
            elif cfg['cs_sleep']:
                sim.sleep(cfg['cs_sleep'])
            if sim.switches != before:
                w['cs_switch'] += 1

        def make_prim(cache):
            ekw = {'expire': cfg['expire']} if cfg.get('expire') else {}
            if kind == 'lock':
                return dc.Lock(cache, 'the-lock', **ekw)
            if kind == 'rlock':
                return dc.RLock(cache, 'the-lock', **ekw)
            if kind == 'sem':
                return dc.BoundedSemaphore(cache, 'the-sem', value=cfg['value'], **ekw)
            return None

        barrier_fn = {}

        def make_barrier(cache, which=0):
            factory = getattr(dc, cfg['lock_factory'])
            if cfg['lock_factory'] == 'BoundedSemaphore':
                def lf(c, key, expire=None, tag=None):
                    return dc.BoundedSemaphore(c, key, value=cfg['value'], expire=expire, tag=tag)
                factory = lf

            def work(name, boom=False):
                enter(name)
                critical(name)
                leave(name)
                probes['barrier_calls'] = probes.get('barrier_calls', 0) + 1
                if boom:
                    raise CsError(name)
                return name
            if cfg.get('barrier_mix') is not None:
                work.__module__, work.__qualname__ = 'jobs', 'work_%d' % (which % 2)
                work.__name__ = work.__qualname__
            if cfg.get('barrier_noname') and not cfg.get('barrier_mix'):
                # the documented default: no name given, the key is the function's qualified name - every worker defines the same
                # nested function (its own object) and they exclude one another
                work.__module__, work.__qualname__ = 'jobs', 'serve.<locals>.rebuild'
                work.__name__ = 'rebuild'
                probes['barrier_default_name'] = 1
                return dc.barrier(cache, factory)(work)
            return dc.barrier(cache, factory, name='the-barrier')(work)

        # fork(): every child gets its own copy of the object graph as it was in the parent.  Simulated with a pickle
        # round trip of the primitive built in the harness process (a Cache pickles to its directory, timeout and disk).
        import pickle
        forked = cfg.get('forked') and kind != 'barrier'
        inherited = {}
        if forked:
            parent_prim = make_prim(main)
            inherited['copies'] = [pickle.loads(pickle.dumps(parent_prim)) for _ in range(cfg['n'])]

        def contender(i, cache):
            name = 'c%d' % i

            def fn():
                if kind == 'barrier' and cfg.get('barrier_mix') and i == cfg['n'] - 1:
                    # the primitive itself, on the barrier's name
                    factory = cfg['lock_factory']
                    prim = (dc.BoundedSemaphore(cache, 'the-barrier', value=cfg['value']) if factory == 'BoundedSemaphore'
                            else getattr(dc, factory)(cache, 'the-barrier'))
                    for it in range(cfg['iters']):
                        if cfg['think'][i]:
                            sim.sleep(cfg['think'][i])
                        with prim:
                            enter(name)
                            critical(name)
                            leave(name)
                        probes['barrier_mixed_with_primitive'] = 1
                    return True
                if kind == 'barrier':
                    work = make_barrier(cache, i)
                    for it in range(cfg['iters']):
                        if cfg['think'][i]:
                            sim.sleep(cfg['think'][i])
                        boom = bool(cfg.get('raises')) and cfg['raises'][i][it]
                        try:
                            got = work(name, boom)
                            if boom or got != name:
                                violations.append({'rule': 'C15/barrier-result', 'sig': 'barrier',
                                                   'detail': 'barrier-wrapped call returned %r (raising round: %s)' % (got, boom)})
                        except CsError:
                            probes['cs_raised'] = probes.get('cs_raised', 0) + 1
                    return True
                outer = None
                if cfg.get('outer_same_key'):
                    # the contender already holds an unrelated primitive of the same kind and the same key on ANOTHER cache
                    # (its own, nobody else uses it): a primitive is identified by cache and key, not by key alone
                    ocache = dc.Cache(world.path('o%d' % i), eviction_policy='none')
                    outer = make_prim(ocache)
                    outer.acquire()
                    probes['outer_same_key'] = 1
                prim = inherited['copies'][i] if forked else make_prim(cache)
                if cfg['bad_release'] and i == 0 and kind == 'rlock':
                    try:
                        prim.release()
                        violations.append({'rule': 'C15/release-not-held-accepted', 'sig': kind,
                                           'detail': 'release() of a %s that is not held did not raise' % kind})
                    except AssertionError:
                        probes['bad_release_refused'] = probes.get('bad_release_refused', 0) + 1
                style = cfg['style'][i] if cfg.get('style') else 'explicit'
                for it in range(cfg['iters']):
                    if cfg['think'][i]:
                        sim.sleep(cfg['think'][i])
                    depth = cfg['nest'] if kind == 'rlock' else 1
                    boom = bool(cfg.get('raises')) and cfg['raises'][i][it]

                    def held():
                        critical(name)
                        if kind == 'lock' and not prim.locked():
                            violations.append({'rule': 'C15/locked-false-while-held', 'sig': kind,
                                               'detail': '%s holds the lock and locked() answers False' % name})
                        if boom:
                            raise CsError(name)

                    def nested(dlevel):
                        with prim:
                            enter(name)
                            if dlevel:
                                probes['nested_rlock'] = 1
                            try:
                                if dlevel + 1 < depth:
                                    nested(dlevel + 1)
                                else:
                                    held()
                            finally:
                                leave(name)

                    try:
                        if style == 'with':
                            probes['with_statement'] = probes.get('with_statement', 0) + 1
                            nested(0)
                        elif style == 'handles' and not forked:
                            import gc
                            probes['fresh_handles'] = probes.get('fresh_handles', 0) + 1
                            taken = 0
                            try:
                                for dlevel in range(depth):
                                    make_prim(cache).acquire()
                                    gc.collect()      # the handle that acquired is gone; the primitive is still held
                                    taken += 1
                                    enter(name)
                                    if dlevel:
                                        probes['nested_rlock'] = 1
                                held()
                            finally:
                                for dlevel in range(taken):
                                    leave(name)
                                    make_prim(cache).release()
                        else:
                            taken = 0
                            try:
                                for dlevel in range(depth):
                                    prim.acquire()
                                    taken += 1
                                    enter(name)
                                    if dlevel:
                                        probes['nested_rlock'] = 1
                                held()
                            finally:
                                for dlevel in range(taken):
                                    leave(name)
                                    if cfg.get('handoff') and kind in ('lock', 'sem'):
                                        # a Lock / BoundedSemaphore has no owner: whoever holds the object may release it - here
                                        # another thread of the process (a pool's callback thread) does
                                        me = sim.current
                                        mine = me.tid
                                        me.tid = 5000 + i
                                        try:
                                            prim.release()
                                        finally:
                                            me.tid = mine
                                        probes['released_by_another_thread'] = 1
                                    else:
                                        prim.release()
                    except CsError:
                        probes['cs_raised'] = probes.get('cs_raised', 0) + 1
                if cfg['bad_release'] and i == 1 and kind == 'rlock':
                    # after everything was released by this thread, one more release must be refused
                    try:
                        prim.release()
                        if kind == 'rlock':
                            violations.append({'rule': 'C15/release-not-held-accepted', 'sig': kind,
                                               'detail': 'extra release() by a thread that released as often as it acquired did not raise'})
                    except AssertionError:
                        probes['bad_release_refused'] = probes.get('bad_release_refused', 0) + 1
                if outer is not None:
                    outer.release()
                    ocache.close()
                return True
            return fn

        def sem_release_refused(when):
            # a semaphore has no owner: releasing is refused only when nobody holds it
            c2 = make_cache()
            try:
                make_prim(c2).release()
                violations.append({'rule': 'C15/release-not-held-accepted', 'sig': 'sem',
                                   'detail': 'release() of a semaphore at its full value (%s the run) did not raise' % when})
            except AssertionError:
                probes['bad_release_refused'] = probes.get('bad_release_refused', 0) + 1
            c2.close()

        if cfg['bad_release'] and kind == 'sem':
            sem_release_refused('before')
        tasks = []
        for i in range(cfg['n']):
            cache = main if cfg['topology'] == 'shared' and not forked else make_cache()
            procname = 'p0' if (cfg['topology'] in ('shared', 'own') and not forked) else 'p%d' % i
            tasks.append(sim.spawn('c%d' % i, procname, contender(i, cache)))
            if forked:
                tasks[-1].tid = 77
        try:
            sim.run()
        except SimIncident as inc:
            incident = inc
        if incident is not None:
            if incident.kind in ('stepcap', 'deadlock'):
                violations.append({'rule': 'C15/no-progress', 'sig': incident.kind,
                                   'detail': '%s; holders %s' % (str(incident)[:200], w['depth'])})
            else:
                raise incident
        else:
            for t in tasks:
                if t.exc is not None and not isinstance(t.exc, (Killed, Aborted)):
                    violations.append({'rule': 'C15/unexpected-exception', 'sig': type(t.exc).__name__,
                                       'detail': '%s: %s' % (t.name, str(t.exc)[:100])})
            want = cfg['n'] * cfg['iters'] * (cfg['nest'] if kind == 'rlock' else 1)
            if not violations and w['entries'] != want:
                violations.append({'rule': 'C15/progress', 'sig': kind, 'detail': '%d entries, expected %d' % (w['entries'], want)})
            # everything released: the stored state of the primitive says "free"
            if not violations:
                c2 = make_cache()
                if kind == 'barrier':
                    key, pk = 'the-barrier', {'Lock': 'lock', 'RLock': 'rlock', 'BoundedSemaphore': 'sem'}[cfg['lock_factory']]
                else:
                    key, pk = ('the-sem' if kind == 'sem' else 'the-lock'), kind
                state = c2.get(key, default='<absent>')
                if pk == 'lock':
                    is_free = state == '<absent>'
                elif pk == 'rlock':      # (last owner, 0)
                    is_free = state == '<absent>' or (isinstance(state, (tuple, list)) and len(state) == 2 and state[1] == 0)
                else:
                    is_free = state in ('<absent>', cfg['value'])
                if not is_free:
                    violations.append({'rule': 'C15/state-after-run', 'sig': pk,
                                       'detail': 'every contender released, yet the stored state of the %s is %r' % (pk, state)})
                c2.close()
            if not violations and kind in ('lock', 'rlock', 'sem'):
                c2 = make_cache()
                prim = make_prim(c2)
                prim.acquire()
                prim.release()
                c2.close()
                if cfg['bad_release'] and kind == 'sem':
                    sem_release_refused('after')
        probes['contended_acquire'] = sim.probes.get('lock_wait', 0) + (1 if w['cs_switch'] else 0)
        digest = sim.digest()
        res = {'violations': violations, 'digest': digest, 'steps': sim.step, 'switches': sim.switches, 'fired': dict(sim.fired),
               'probes': dict(sim.probes, **probes), 'virtual_s': sim.now - sim._t0, 'picks': sim.picks[:500],
               'nontrivial': w['cs_switch'] > 0 or sim.switches > 0, 'outcome': {'entries': w['entries'], 'max_holders': w['max']}}
        main.close()
    finally:
        world.close()
    return res


def shrink_candidates(case):
    import copy
    cfg = case['cfg']
    if cfg['n'] > 2:
        c = copy.deepcopy(case)
        c['cfg']['n'] -= 1
        c['cfg']['think'] = c['cfg']['think'][:c['cfg']['n']]
        yield c
    if cfg['iters'] > 1:
        c = copy.deepcopy(case)
        c['cfg']['iters'] -= 1
        yield c
    for key, val in (('nest', 1), ('cs_yields', 0), ('cs_sleep', 0.0), ('bad_release', False), ('line_p', 0.0)):
        if cfg.get(key) != val:
            c = copy.deepcopy(case)
            c['cfg'][key] = val
            yield c
