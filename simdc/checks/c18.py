"""C18 - data and settings persist and are shared by every handle on the
directory.  (hist) Cache histories against ModelCache with lifecycle events at
arbitrary points: close/reopen, new handle in another simulated process, pickle
round trip, fork (pid change and back), use from another thread, for Disk and
JSONDisk and every creation-time setting; (objects) FanoutCache, Deque, Index
and DjangoCache through reopen / pickle / process change; (fixture) a committed
directory written by the pinned release is the initial durable state, read back
in full against its manifest and then operated on.  DESIGN.md section 9, C18."""
import copy
import hashlib
import json
import os
import pickle
import random
import shutil

from .. import seams, seqcache, vals
from ..audit import audit, check_messages
from ..models import ModelCache
from ..ops import fp, run_op
from ..seq import RawView
from ..world import World

PROPERTY = 'C18'
LEVEL = 'exploration'
QUICK_S = 30
THOROUGH_S = 420
BATCH = 4
RULE = ('one evaluation = one seeded run: (hist) a 20-150 call Cache history with lifecycle events inserted at arbitrary points (close '
        '+ reopen without arguments, second handle in another simulated process, pickle round trip of the object, fork = pid change of '
        'the calling process and back, a stretch of calls made from another thread) x Disk/JSONDisk x creation-time settings, compared '
        'call by call with the reference model, settings re-read after every reopen, and seam invariants (no SQLite connection used '
        'across pids or threads); (objects) FanoutCache / Deque / Index / DjangoCache through reopen, pickle and process change; '
        '(fixture) the committed directory written by the pinned release read back against its manifest (every key/value representation, '
        'tags, expiry, settings, queue order, shard routing, JSONDisk, Deque, Index) and then modified; non-trivial = at least one '
        'lifecycle event / the fixture was read; distinct = SHA-256 of the case')
RULE += ' ' + 'A third of the object scenarios build the FanoutCache / Deque / Index without a directory (own temporary directory) and collect the earlier handles after every lifecycle event.'
RULE += ' ' + 'The fixture holds handles pickled by the released version (Cache, FanoutCache, Deque, Index), which must load and lead to the same collections; the FanoutCache object scenario keeps a named cache and a named index with settings of their own while the parent is reopened with explicit settings; JSONDisk histories call iterkeys().'
RULE += ' ' + "A plain Cache object scenario loads the handle's first pickle again later while another handle changes stored settings in between."
RULE += ' ' + 'Objects that make their own directory run their database with the default pragmas; a stale handle may write its value back after another handle changed a setting.'
RULE += ' ' + 'The Cache object scenario runs in 40 % with a Disk subclass that derives state in its constructor from a disk_ setting.'
ASSUMPTIONS = ['a real fork() carrying an open SQLite handle is not simulated; the pid-change seam checks the library\'s reaction to it',
               'the fixture was written on POSIX by the pinned release (fixtures/make_fixture.py)']
PROBES = ('lifecycle', 'fork', 'thread_stretch', 'pickle', 'fixture_items', 'newproc', 'move', 'own_temporary_directory', 'released_pickles_loaded', 'parent_reopened_with_settings', 'old_pickle_loaded', 'setting_changed_by_other_handle', 'stale_handle_writes_its_value_back', 'user_disk_with_derived_state')
TECHNIQUE = 'deterministic simulation (simulated processes, pid seam, thread tasks, virtual clock) + model-based checking across lifecycle events; golden-directory regression of the released on-disk format'
LEVEL_TEXT = ('seeded exploration of histories with lifecycle events under the simulator (process identity and threads are simulated, so '
              'fork and cross-process sharing are replayable), each call compared with the reference model through whichever handle is '
              'current; plus a golden directory written by the pinned release as initial durable state.')
LEVEL_NOTE = 'trusted: reference model, the committed fixture and its manifest, SQLite'

FIXTURE = os.path.join(os.path.dirname(os.path.dirname(os.path.dirname(os.path.abspath(__file__)))), 'fixtures', 'format_5_6_3')
JSON_KEYS = ['a', 'b', 'ab', 1, 2, {'f': '2.5'}, None, True, '', 'é ']
JSON_VALUES = [0, 1, -7, {'f': '1.5'}, 'v', 'text\r\nline', None, True, {'l': [1, 2, 3]}, {'l': [1, {'d': [['k', 1]]}]}, '']
SETTING_KEYS = ('eviction_policy', 'cull_limit', 'statistics', 'tag_index', 'disk_min_file_size', 'size_limit', 'disk_pickle_protocol',
                'sqlite_cache_size', 'sqlite_mmap_size', 'sqlite_synchronous')
PRAGMAS = {'sqlite_cache_size': 'cache_size', 'sqlite_mmap_size': 'mmap_size', 'sqlite_synchronous': 'synchronous'}


SaltedDisk = None


def salted_disk(dc):
    """A user Disk whose constructor derives state from one of its disk_ settings (module-level, so that handles pickle)."""
    global SaltedDisk
    if SaltedDisk is None:
        class _SaltedDisk(dc.Disk):
            def __init__(self, directory, salt='none', **kwargs):
                super().__init__(directory, **kwargs)
                self.salt = salt
                self._prefix = 'ns-%s|' % salt      # derived in the constructor

            def put(self, key):
                return super().put(self._prefix + key if type(key) is str else key)

            def get(self, key, raw):
                key = super().get(key, raw)
                return key[len(self._prefix):] if type(key) is str and key.startswith(self._prefix) else key
        _SaltedDisk.__name__ = _SaltedDisk.__qualname__ = 'SaltedDisk'
        _SaltedDisk.__module__ = __name__
        SaltedDisk = _SaltedDisk
    return SaltedDisk



def gen_case(seed, tier):
    rng = random.Random('%s/c18' % seed)
    r = rng.random()
    if r < 0.15:
        return {'seed': seed, 'cfg': {'kind': 'fixture', 'ops': rng.randint(0, 12)}}
    if r < 0.35:
        return {'seed': seed, 'cfg': {'kind': 'objects', 'which': rng.choice(('fanout', 'deque', 'index', 'django', 'cache')),
                                      'events': [rng.choice(('reopen', 'pickle', 'newproc', 'fork')) for _ in range(rng.randint(2, 6))],
                                      'shards': rng.choice((1, 2, 3)), 'size_limit': rng.choice((None, 4000000)),
                                      'maxlen': rng.choice((None, 3, 5)), 'temp': rng.random() < 0.3, 'reopen_settings': rng.random() < 0.5, 'user_disk': rng.random() < 0.4}}
    settings = seqcache.gen_settings(rng, 'c18')
    if rng.random() < 0.4:
        settings['sqlite_cache_size'] = rng.choice((1000, 4096))
    if rng.random() < 0.3:
        settings['sqlite_mmap_size'] = rng.choice((0, 2 ** 20))
    if rng.random() < 0.3:
        settings['sqlite_synchronous'] = rng.choice((0, 2))
    disk = 'json' if rng.random() < 0.25 else None
    n_ops = rng.choice((20, 40, 80)) if tier == 'quick' else rng.choice((30, 80, 150))
    saved_k, saved_v = seqcache.KEYS, seqcache.SMALL_VALUES
    if disk == 'json':
        seqcache.KEYS, seqcache.SMALL_VALUES = JSON_KEYS, JSON_VALUES
    try:
        prog = seqcache.gen_prog(rng, n_ops, rng.choice(('mixed', 'nottl')), settings['disk_min_file_size'])
    finally:
        seqcache.KEYS, seqcache.SMALL_VALUES = saved_k, saved_v
    if disk == 'json':
        clean = []
        for op in prog:
            if op.get('read'):
                continue
            if isinstance(op.get('v'), dict) and 'big' in op['v']:
                op['v'] = {'big': ['str', op['v']['big'][1], op['v']['big'][2]]}
            if isinstance(op.get('tag'), dict):
                op['tag'] = 't1'
            if op['op'] in ('read', 'incr', 'decr'):
                continue      # JSONDisk stores compressed JSON: incr/decr need a native number column
            clean.append(op)
        prog = clean
    out = []
    for op in prog:
        if op['op'] == 'stats':
            continue
        if rng.random() < 0.12:
            ev = rng.choice(('reopen', 'newproc', 'pickle', 'fork', 'unfork', 'thread', 'move'))
            out.append({'op': 'life', 'ev': ev, 'n': rng.randint(1, 4)})
        out.append(op)
    return {'seed': seed, 'cfg': {'kind': 'hist', 'settings': settings, 'disk': disk}, 'prog': out}


# ---------------------------------------------------------------------------

def check_settings(cache, settings, violations, when):
    for k in SETTING_KEYS:
        if k in settings:
            got = getattr(cache, k)
            if got != settings[k]:
                violations.append({'rule': 'C18/setting-not-persisted', 'sig': k,
                                   'detail': '%s: %s is %r, created with %r' % (when, k, got, settings[k])})
                return
            if k in PRAGMAS:
                # the stored pragma must also be in force on this handle's connection
                (val,), = cache._sql('PRAGMA %s' % PRAGMAS[k]).fetchall()
                if val != settings[k]:
                    violations.append({'rule': 'C18/setting-not-persisted', 'sig': k + ':pragma',
                                       'detail': '%s: PRAGMA %s is %r on the connection, created with %r' % (when, PRAGMAS[k], val, settings[k])})
                    return


def run_hist(case):
    cfg = case['cfg']
    settings = dict(cfg['settings'])
    violations = []
    probes = {}
    world = World(case['seed'], clock={'mode': 'frozen'}, yield_clock=False)
    sim = world.sim
    nops = 0
    try:
        dc = world.dc
        path = world.path('c')
        disk_cls = dc.JSONDisk if cfg.get('disk') == 'json' else dc.Disk
        cache = dc.Cache(path, disk=disk_cls, **settings)
        raw = RawView(path)
        model = ModelCache(policy=settings.get('eviction_policy'), cull_limit=settings.get('cull_limit', 10),
                           statistics=settings.get('statistics', 0), size_limit=settings.get('size_limit'))
        base_pid = 1
        thread_left = 0
        pending_thread = []
        prog = case['prog']
        idx = 0
        while idx < len(prog) and not violations:
            op = prog[idx]
            idx += 1
            name = op['op']
            if name == 'advance':
                sim.advance(op['dt'])
                continue
            if name == 'reopen':
                name, op = 'life', {'op': 'life', 'ev': 'reopen'}
            if name == 'life':
                ev = op['ev']
                probes['lifecycle'] = probes.get('lifecycle', 0) + 1
                if ev == 'reopen':
                    cache.close()
                    cache = dc.Cache(path, disk=disk_cls)
                    check_settings(cache, settings, violations, 'after reopen')
                elif ev == 'newproc':
                    base_pid += 1
                    sim.harness_proc.pid = base_pid
                    old = cache
                    cache = dc.Cache(path, disk=disk_cls)
                    old.close() if hasattr(old, '_local') and False else None
                    probes['newproc'] = probes.get('newproc', 0) + 1
                    check_settings(cache, settings, violations, 'in a new process')
                elif ev == 'pickle':
                    cache = pickle.loads(pickle.dumps(cache))
                    probes['pickle'] = probes.get('pickle', 0) + 1
                    if type(cache.disk) is not disk_cls:
                        violations.append({'rule': 'C18/disk-class-lost', 'sig': 'pickle', 'detail': type(cache.disk).__name__})
                    check_settings(cache, settings, violations, 'after unpickling')
                elif ev == 'move':
                    # the directory is self-contained: renamed (backup restore, remount) it must read back the same
                    cache.close()
                    raw.close()
                    new_path = path + 'm'
                    os.rename(path, new_path)
                    path = new_path
                    cache = dc.Cache(path, disk=disk_cls)
                    raw = RawView(path)
                    probes['move'] = probes.get('move', 0) + 1
                    check_settings(cache, settings, violations, 'after moving the directory')
                elif ev == 'fork':
                    sim.harness_proc.pid = base_pid + 1000      # same object, the process id changed under it
                    probes['fork'] = probes.get('fork', 0) + 1
                elif ev == 'unfork':
                    sim.harness_proc.pid = base_pid
                elif ev == 'thread':
                    # the next n data operations are issued from another thread of the same process
                    n = 1      # one call, so that the row set can be reconciled right after it
                    stretch = []
                    j = idx
                    while j < len(prog) and len(stretch) < n and prog[j]['op'] not in ('life', 'reopen', 'advance', 'iterkeys'):
                        stretch.append(prog[j])
                        j += 1
                    if stretch:
                        probes['thread_stretch'] = probes.get('thread_stretch', 0) + 1
                        results = []

                        def body(cache=cache, stretch=stretch, results=results):
                            for sop in stretch:
                                results.append(run_op(cache, sop, {'stream_rng': sim.rng_os}))
                            cache.close()
                            return True
                        proc = sim.proc('thr-proc')
                        proc.pid = sim.harness_proc.pid
                        t = sim.spawn('worker%d' % idx, proc, body)
                        sim.run()
                        if t.exc is not None:
                            violations.append({'rule': 'C18/other-thread-failed', 'sig': type(t.exc).__name__, 'detail': str(t.exc)[:120]})
                            break
                        for sop, got in zip(stretch, results):
                            nops += 1
                            want = model.do(sop, sim.now)
                            if tuple(got) != tuple(want):
                                violations.append({'rule': 'C18/result', 'sig': 'thread:' + sop['op'],
                                                   'detail': 'op %s from another thread: got %s, model %s' % (json.dumps(sop)[:100], got, want)})
                                break
                            model.reconcile(raw.rowids(), sim.now, violations, PROPERTY)
                        idx = j
                for rule, msg in sim.violations:
                    violations.append({'rule': 'C18/' + rule, 'sig': ev, 'detail': msg})
                sim.violations = []
                continue
            if name == 'iterkeys':
                r1 = run_op(cache, {'op': 'iterkeys'})
                r2 = run_op(cache, {'op': 'iterkeys', 'reverse': True})
                if r1[0] != 'ok' or r2[0] != 'ok':
                    violations.append({'rule': 'C18/result', 'sig': 'iterkeys', 'detail': '%s %s' % (r1, r2)})
                    break
                from ..seq import check_sorted_keys
                check_sorted_keys(json.loads(r1[1][5:]), json.loads(r2[1][5:]), [it.key for it in model.rows.values()],
                                  violations, PROPERTY, order=cfg.get('disk') != 'json')
                if violations:
                    break
                continue
            now = sim.now
            nops += 1
            got = run_op(cache, op, {'stream_rng': sim.rng_os})
            if name == 'cull':
                want = model.op_expire(op, now)
            else:
                want = model.do(op, now)
            if tuple(got) != tuple(want):
                violations.append({'rule': 'C18/result', 'sig': name,
                                   'detail': 'op #%d %s at t=%r: got %s, model %s' % (idx, json.dumps(op)[:120], now, got, want)})
                break
            model.reconcile(raw.rowids(), now, violations, PROPERTY)
            for rule, msg in sim.violations:
                violations.append({'rule': 'C18/' + rule, 'sig': name, 'detail': msg})
            sim.violations = []
        if not violations:
            sim.harness_proc.pid = base_pid + 5000
            fresh = dc.Cache(path, disk=disk_cls)
            check_settings(fresh, settings, violations, 'final fresh handle')
            seqcache.final_compare(fresh, model, raw, sim.now, violations, PROPERTY)
            fresh.close()
        raw.close()
    finally:
        world.close()
    digest = hashlib.sha256(json.dumps(case, sort_keys=True).encode()).hexdigest()
    return {'violations': violations, 'digest': digest, 'steps': nops, 'switches': 0, 'fired': {}, 'probes': probes,
            'virtual_s': 0.0, 'nontrivial': probes.get('lifecycle', 0) > 0, 'outcome': {'calls': nops, 'lifecycle': probes.get('lifecycle', 0)}}


# ---------------------------------------------------------------------------

def run_objects(case):
    cfg = case['cfg']
    violations = []
    probes = {}
    world = World(case['seed'], clock={'mode': 'frozen'}, yield_clock=False)
    sim = world.sim
    try:
        dc = world.dc
        which = cfg['which']
        path = world.path('o')
        rng = random.Random('%s/c18obj' % case['seed'])
        contents = None
        if which == 'fanout':
            kw = {} if cfg['size_limit'] is None else {'size_limit': cfg['size_limit']}
            if cfg.get('temp'):
                # no directory given: the object makes its own, which from then on belongs to everything that refers to it by
                # path - reopened handles, unpickled copies, other processes - not to the object that happened to make it
                obj = dc.FanoutCache(shards=cfg['shards'], cull_limit=3, statistics=1, **kw)
                path = obj.directory
                probes['own_temporary_directory'] = 1
            else:
                obj = dc.FanoutCache(path, shards=cfg['shards'], cull_limit=3, statistics=1, **kw)
            pset = {'limit': (cfg['size_limit'] or 2 ** 30) / cfg['shards'], 'cull': 3}
            model = {}
            # named sub-objects kept below the parent's directory have settings of their own, given when they were made: a
            # parent opened later - with whatever settings of ITS own - finds them as they are
            sub = obj.cache('named', disk_pickle_protocol=2, size_limit=10 ** 7)
            sub_was = {k: getattr(sub, k) for k in ('size_limit', 'cull_limit', 'statistics', 'disk_pickle_protocol', 'eviction_policy')}
            ix_was = {k: getattr(obj.index('ix').cache, k) for k in ('size_limit', 'cull_limit', 'disk_pickle_protocol', 'eviction_policy')}
            submodel, ixmodel = {}, {}

            def mutate(o, i):
                k = rng.choice(('a', 'b', 1, (1, 'x'), b'z'))
                v = 'v%d' % i
                o.set(k, v, retry=True)
                model[fp(k)] = fp(v)
                k2 = rng.choice(((1, 'x'), (2, ('y', None)), 'plain'))
                o.cache('named').set(k2, 's%d' % i, retry=True)
                submodel[fp(k2)] = fp('s%d' % i)
                o.index('ix')[k2] = 'i%d' % i
                ixmodel[fp(k2)] = fp('i%d' % i)

            def observe(o):
                return sorted((fp(k), fp(o.get(k, retry=True))) for k in o)

            def expected():
                return sorted(model.items())

            def reopen():
                if cfg.get('reopen_settings') and rng.random() < 0.5:
                    # a restart with settings of the parent's own, given explicitly: they are the parent's from now on
                    probes['parent_reopened_with_settings'] = 1
                    pset['limit'] = 2000000 / cfg['shards']
                    pset['cull'] = 5
                    return dc.FanoutCache(path, shards=cfg['shards'], size_limit=2000000, cull_limit=5)
                return dc.FanoutCache(path, shards=cfg['shards'])

            def extra(o, when):
                if o.size_limit != pset['limit'] or o.cull_limit != pset['cull'] or o.statistics != 1:
                    violations.append({'rule': 'C18/setting-not-persisted', 'sig': 'fanout',
                                       'detail': '%s: size_limit %r (want %r), cull_limit %r (want %r), statistics %r' % (
                                           when, o.size_limit, pset['limit'], o.cull_limit, pset['cull'], o.statistics)})
                s_now = o.cache('named')
                got_s = {k: getattr(s_now, k) for k in sub_was}
                got_i = {k: getattr(o.index('ix').cache, k) for k in ix_was}
                if (got_s != sub_was or got_i != ix_was) and not violations:
                    violations.append({'rule': 'C18/setting-not-persisted', 'sig': 'named-sub-object',
                                       'detail': '%s: named cache %r (made with %r), named index %r (made with %r)' % (when, got_s, sub_was, got_i, ix_was)})
                sub_items = sorted((fp(k), fp(s_now.get(k, retry=True))) for k in s_now)
                ix_items = sorted((fp(k), fp(v)) for k, v in o.index('ix').items())
                if (sub_items != sorted(submodel.items()) or ix_items != sorted(ixmodel.items())) and not violations:
                    violations.append({'rule': 'C18/contents-after-lifecycle-event', 'sig': 'named-sub-object',
                                       'detail': '%s: named cache %s (expected %s), named index %s (expected %s)' % (
                                           when, sub_items[:4], sorted(submodel.items())[:4], ix_items[:4], sorted(ixmodel.items())[:4])})
        elif which == 'cache':
            ckw = {}
            if cfg.get('user_disk'):
                # a user Disk whose constructor derives state from one of its disk_ settings (a key namespace, a cipher pad):
                # the setting is given once, when the cache is made, and is stored with it
                SaltedDisk = salted_disk(dc)
                ckw = {'disk': SaltedDisk, 'disk_salt': 'tenant-7'}
                probes['user_disk_with_derived_state'] = 1
            obj = dc.Cache(path, size_limit=10 ** 7, cull_limit=3, statistics=1, **ckw)
            reopen_kw = {'disk': ckw['disk']} if ckw else {}
            stored = {'size_limit': 10 ** 7, 'cull_limit': 3, 'statistics': 1}
            first_pickle = pickle.dumps(obj)      # a handle pickled right away: a job payload that is loaded much later
            model = {}

            def mutate(o, i):
                k = rng.choice(('a', 'b', 1, (1, 'x'), b'z'))
                v = 'v%d' % i
                o.set(k, v, retry=True)
                model[fp(k)] = fp(v)
                if rng.random() < 0.4:
                    # an operator changes a setting through a handle of its own: stored in the directory, so it is everybody's
                    key, value = rng.choice((('size_limit', 5 * 10 ** 7), ('size_limit', 2 * 10 ** 7), ('cull_limit', 7), ('cull_limit', 0)))
                    other = dc.Cache(path, **reopen_kw)
                    other.reset(key, value)
                    other.close()
                    if rng.random() < 0.4:
                        # ... and this handle, which has not looked, writes the value it was working with all along: the last
                        # value written is the stored one
                        mine = getattr(o, key)
                        o.reset(key, mine)
                        stored[key] = mine
                        probes['stale_handle_writes_its_value_back'] = 1
                    else:
                        o.reset(key)
                        stored[key] = value
                    probes['setting_changed_by_other_handle'] = 1

            def observe(o):
                return sorted((fp(k), fp(o.get(k, retry=True))) for k in o)

            def expected():
                return sorted(model.items())

            def reopen():
                if rng.random() < 0.5:
                    probes['old_pickle_loaded'] = 1
                    return pickle.loads(first_pickle)
                return dc.Cache(path, **reopen_kw)

            def extra(o, when):
                fresh = dc.Cache(path, **reopen_kw)
                got = [{k: getattr(h, k) for k in stored} for h in (o, fresh)]
                fresh.close()
                if got != [stored, stored]:
                    violations.append({'rule': 'C18/setting-not-persisted', 'sig': 'cache',
                                       'detail': '%s: this handle %r, a fresh handle %r, stored last %r' % (when, got[0], got[1], stored)})
        elif which == 'django':
            mod = seams.install_django()
            params = {'SHARDS': cfg['shards'], 'OPTIONS': {'cull_limit': 3}}
            if cfg['size_limit']:
                params['OPTIONS']['size_limit'] = cfg['size_limit']
            obj = mod.DjangoCache(path, params)
            want_limit = (cfg['size_limit'] or 2 ** 30) / cfg['shards']
            model = {}

            def mutate(o, i):
                k = rng.choice(('a', 'b', 'c'))
                o.set(k, 'v%d' % i, None)
                model[k] = 'v%d' % i

            def observe(o):
                return sorted((k, o.get(k)) for k in ('a', 'b', 'c') if o.has_key(k))

            def expected():
                return sorted(model.items())

            def reopen():
                return mod.DjangoCache(path, {'SHARDS': cfg['shards']})

            def extra(o, when):
                if o._cache.size_limit != want_limit or o._cache.cull_limit != 3:
                    violations.append({'rule': 'C18/setting-not-persisted', 'sig': 'django',
                                       'detail': '%s: size_limit %r (want %r), cull_limit %r' % (when, o._cache.size_limit, want_limit, o._cache.cull_limit)})
        elif which == 'deque':
            if cfg.get('temp'):
                obj = dc.Deque(maxlen=cfg['maxlen'])
                path = obj.directory
                probes['own_temporary_directory'] = 1
            else:
                obj = dc.Deque(directory=path, maxlen=cfg['maxlen'])
            import collections
            model = collections.deque(maxlen=cfg['maxlen'])

            def mutate(o, i):
                if rng.random() < 0.7 or not len(model):
                    side = rng.choice(('append', 'appendleft'))
                    getattr(o, side)('v%d' % i)
                    getattr(model, side)('v%d' % i)
                else:
                    side = rng.choice(('pop', 'popleft'))
                    a, b = getattr(o, side)(), getattr(model, side)()
                    if a != b:
                        violations.append({'rule': 'C18/result', 'sig': 'deque.' + side, 'detail': '%r != %r' % (a, b)})

            def observe(o):
                return list(o)

            def expected():
                return list(model)

            def reopen():
                return dc.Deque(directory=path, maxlen=cfg['maxlen'])

            def extra(o, when):
                pass
        else:
            if cfg.get('temp'):
                obj = dc.Index()
                path = obj.directory
                probes['own_temporary_directory'] = 1
            else:
                obj = dc.Index(path)
            import collections
            model = collections.OrderedDict()

            def mutate(o, i):
                k = rng.choice(('a', 'b', 3, (1, 'x')))
                if rng.random() < 0.75 or k not in model:
                    o[k] = 'v%d' % i
                    model[k] = 'v%d' % i
                else:
                    del o[k]
                    del model[k]

            def observe(o):
                return [(fp(k), fp(v)) for k, v in o.items()]

            def expected():
                return [(fp(k), fp(v)) for k, v in model.items()]

            def reopen():
                return dc.Index(path)

            def extra(o, when):
                pass
        if cfg.get('temp') and which in ('fanout', 'deque', 'index'):
            # an object that made its own directory is configured like one that was given a directory: the defaults
            inner = obj._shards[0] if which == 'fanout' else obj.cache
            odd = {k: getattr(inner, k) for k, v in dc.DEFAULT_SETTINGS.items()
                   if k.startswith('sqlite_') and getattr(inner, k) != v}
            if odd:
                violations.append({'rule': 'C18/setting-not-persisted', 'sig': 'own-directory-defaults',
                                   'detail': 'made without a directory, the %s runs its database with %r (defaults %r)' % (
                                       which, odd, {k: dc.DEFAULT_SETTINGS[k] for k in odd})})
        pid = 1
        for i, ev in enumerate(cfg['events']):
            for j in range(rng.randint(1, 3)):
                mutate(obj, i * 10 + j)
            probes['lifecycle'] = probes.get('lifecycle', 0) + 1
            if ev == 'reopen':
                closer = getattr(obj, 'close', None) or obj.cache.close
                closer()
                obj = reopen()
            elif ev == 'pickle':
                if which == 'django':
                    closer = obj.close
                    closer()
                    obj = reopen()
                else:
                    obj = pickle.loads(pickle.dumps(obj))
                    probes['pickle'] = probes.get('pickle', 0) + 1
                    if which == 'deque' and obj.maxlen != (float('inf') if cfg['maxlen'] is None else cfg['maxlen']):
                        violations.append({'rule': 'C18/setting-not-persisted', 'sig': 'deque.maxlen', 'detail': repr(obj.maxlen)})
            elif ev == 'newproc':
                pid += 1
                sim.harness_proc.pid = pid
                obj = reopen()
                probes['newproc'] = probes.get('newproc', 0) + 1
            elif ev == 'fork':
                pid += 1000
                sim.harness_proc.pid = pid
                probes['fork'] = probes.get('fork', 0) + 1
            if cfg.get('temp'):
                import gc
                gc.collect()      # the handles used so far are gone for good
            extra(obj, 'after ' + ev)
            got, want = observe(obj), expected()
            if got != want and not violations:
                violations.append({'rule': 'C18/contents-after-lifecycle-event', 'sig': '%s:%s' % (which, ev),
                                   'detail': 'after %s #%d: %s, expected %s' % (ev, i, got[:6], want[:6])})
            for rule, msg in sim.violations:
                violations.append({'rule': 'C18/' + rule, 'sig': '%s:%s' % (which, ev), 'detail': msg})
            sim.violations = []
            if violations:
                break
        closer = getattr(obj, 'close', None) or obj.cache.close
        closer()
    finally:
        world.close()
    digest = hashlib.sha256(json.dumps(case, sort_keys=True).encode()).hexdigest()
    return {'violations': violations, 'digest': digest, 'steps': len(cfg['events']), 'switches': 0, 'fired': {}, 'probes': probes,
            'virtual_s': 0.0, 'nontrivial': True, 'outcome': {'events': cfg['events']}}


# ---------------------------------------------------------------------------

def run_fixture(case):
    violations = []
    probes = {}
    world = World(case['seed'], clock={'mode': 'frozen', 'epoch': 1600000500.0}, yield_clock=False)
    sim = world.sim
    n = 0
    try:
        dc = world.dc
        root = world.path('fx')
        shutil.copytree(FIXTURE, root)
        man = json.load(open(os.path.join(root, 'manifest.json')))

        def bad(sig, detail):
            violations.append({'rule': 'C18/released-format-unreadable', 'sig': sig, 'detail': detail})

        spec = man['caches']['cache']
        c = dc.Cache(os.path.join(root, 'cache'))
        for k, v in spec['settings'].items():
            if getattr(c, k) != v:
                bad('setting:' + k, '%r != %r' % (getattr(c, k), v))
        if len(c) != spec['count']:
            bad('count', '%d != %d' % (len(c), spec['count']))
        for it in spec['items']:
            n += 1
            key = vals.dec(it['k'])
            got = c.get(key, default='<absent>', expire_time=True, tag=True)
            want = (vals.dec(it['v']), it['expire_time'], vals.dec(it['tag']))
            if not (vals.same(got[0], want[0]) and got[1] == want[1] and vals.same(got[2], want[2])):
                bad('item', 'key %s: %s, manifest %s' % (json.dumps(it['k']), vals.brief(got), vals.brief(want)))
                break
        keys_iter = [fp(k) for k in c]
        want_keys = [fp(vals.dec(it['k'])) for it in spec['items']]
        if not violations and keys_iter[:len(want_keys)] != want_keys:
            bad('iteration-order', '%s != %s' % (keys_iter[:5], want_keys[:5]))
        q = [c.pull(prefix='jobs')[1] for _ in range(3)]
        if not violations and q != spec['queue']['order']:
            bad('queue-order', '%s != %s' % (q, spec['queue']['order']))
        msgs = check_messages(c)
        if not violations and msgs:
            bad('check', str(msgs[:3]))
        # keep operating on it
        rng = random.Random('%s/c18fx' % case['seed'])
        for i in range(case['cfg']['ops']):
            k = rng.choice(('text', 7, 'new-%d' % i))
            v = rng.choice((1, 'x' * 100, b'y' * 10))
            c.set(k, v)
            if not vals.same(c.get(k), v):
                bad('write-after-open', repr(k))
        c.close()
        fs = man['caches']['fanout']
        f = dc.FanoutCache(os.path.join(root, 'fanout'), shards=fs['shards'])
        if f.size_limit != fs['size_limit_per_shard'] or f.cull_limit != fs['cull_limit']:
            bad('fanout-settings', 'size_limit %r cull_limit %r' % (f.size_limit, f.cull_limit))
        for it in fs['items']:
            n += 1
            key = vals.dec(it['k'])
            got = f.get(key, default='<absent>', retry=True)
            if not vals.same(got, vals.dec(it['v'])):
                bad('fanout-item', 'key %s: %s' % (json.dumps(it['k']), vals.brief(got)))
                break
            if f._hash(key) % fs['shards'] != it['shard']:
                bad('fanout-routing', 'key %s now maps to shard %d, written to %d' % (json.dumps(it['k']), f._hash(key) % fs['shards'], it['shard']))
                break
        if not violations:
            dq = list(f.deque('dq'))
            if not all(vals.same(a, vals.dec(b)) for a, b in zip(dq, fs['deque'])) or len(dq) != len(fs['deque']):
                bad('fanout-deque', vals.brief(dq))
            ix = [[k, v] for k, v in f.index('ix').items()]
            wantix = [[vals.dec(a), vals.dec(b)] for a, b in fs['index']]
            if len(ix) != len(wantix) or not all(vals.same(a[0], b[0]) and vals.same(a[1], b[1]) for a, b in zip(ix, wantix)):
                bad('fanout-index', vals.brief(ix))
        f.close()
        j = dc.Cache(os.path.join(root, 'json'), disk=dc.JSONDisk)
        for it in man['caches']['json']['items']:
            n += 1
            got = j.get(it['k'], default='<absent>')
            if got != vals.dec(it['v']) and not violations:
                bad('jsondisk-item', 'key %r: %s' % (it['k'], vals.brief(got)))
        j.close()
        # JSONDisk with composite keys: the member order of a mapping is part of the released key encoding
        j2spec = man['caches'].get('json2')
        if j2spec:
            j2 = dc.Cache(os.path.join(root, 'json2'), disk=dc.JSONDisk)
            if len(j2) != j2spec['count'] and not violations:
                bad('jsondisk-count', '%d != %d' % (len(j2), j2spec['count']))
            for it in j2spec['items']:
                n += 1
                key = json.loads(it['kjson'])
                got = j2.get(key, default='<absent>')
                if got != json.loads(it['vjson']) and not violations:
                    bad('jsondisk-composite-key', 'key %s: %s' % (it['kjson'], vals.brief(got)))
                if key not in j2 and not violations:
                    bad('jsondisk-composite-key', 'key %s not in cache' % it['kjson'])
            if not violations:
                # replacing through the current code replaces (no second row under another encoding of the same key)
                it = j2spec['items'][0]
                j2[json.loads(it['kjson'])] = 'again'
                if len(j2) != j2spec['count']:
                    bad('jsondisk-composite-key', 'replacing key %s added a row' % it['kjson'])
            j2.close()
            jf = dc.FanoutCache(os.path.join(root, 'jsonfan'), shards=man['caches']['jsonfan']['shards'], disk=dc.JSONDisk)
            for it in man['caches']['jsonfan']['items']:
                n += 1
                key = json.loads(it['kjson'])
                if jf._hash(key) % len(jf._shards) != it['shard'] and not violations:
                    bad('jsondisk-routing', 'key %s routed to shard %d, released version %d' % (it['kjson'], jf._hash(key) % len(jf._shards), it['shard']))
                got = jf.get(key, default='<absent>', retry=True)
                if got != json.loads(it['vjson']) and not violations:
                    bad('jsondisk-fanout-item', 'key %s: %s' % (it['kjson'], vals.brief(got)))
            jf.close()
        d = dc.Deque(directory=os.path.join(root, 'deque'))
        if [fp(x) for x in d] != [fp(vals.dec(x)) for x in man['caches']['deque']] and not violations:
            bad('deque', vals.brief(list(d)))
        d.cache.close()
        x = dc.Index(os.path.join(root, 'index'))
        if [(fp(k), fp(v)) for k, v in x.items()] != [(fp(vals.dec(a)), fp(vals.dec(b))) for a, b in man['caches']['index']] and not violations:
            bad('index', vals.brief(list(x.items())))
        x.cache.close()
        # handles pickled by the released version (job payloads, values in other caches, arguments kept on disk) still load and
        # still lead to the same collections
        hpath = os.path.join(root, 'handles.json')
        if os.path.exists(hpath) and not violations:
            import pickle
            for hname, h in sorted(json.load(open(hpath))['handles'].items()):
                blob = h['pickle_p0'].replace('@ROOT@', root).encode('latin-1')
                try:
                    obj = pickle.loads(blob)
                except Exception as exc:  # noqa
                    bad('pickled-handle:' + hname, 'pickle written by %s does not load: %s: %s' % (man['written_by'], type(exc).__name__, str(exc)[:100]))
                    break
                probes['released_pickles_loaded'] = probes.get('released_pickles_loaded', 0) + 1
                closer = getattr(obj, 'close', None) or obj.cache.close
                try:
                    if type(obj).__name__ != h['kind'] or obj.directory != os.path.join(root, h['dir']):
                        bad('pickled-handle:' + hname, '%s on %s' % (type(obj).__name__, obj.directory))
                    elif h['kind'] == 'Deque':
                        wantlen = float('inf') if h['maxlen'] is None else h['maxlen']
                        if obj.maxlen != wantlen or [fp(v) for v in obj] != [fp(vals.dec(v)) for v in man['caches']['deque']]:
                            bad('pickled-handle:' + hname, 'maxlen %r, items %s' % (obj.maxlen, vals.brief(list(obj))))
                    elif h['kind'] == 'Index':
                        if [(fp(k), fp(v)) for k, v in obj.items()] != [(fp(vals.dec(a)), fp(vals.dec(b))) for a, b in man['caches']['index']]:
                            bad('pickled-handle:' + hname, vals.brief(list(obj.items())))
                    elif h['kind'] == 'FanoutCache':
                        it = man['caches']['fanout']['items'][0]
                        if len(obj._shards) != h['shards'] or obj.timeout != h['timeout'] or not vals.same(obj.get(vals.dec(it['k']), retry=True), vals.dec(it['v'])):
                            bad('pickled-handle:' + hname, 'shards %d timeout %r' % (len(obj._shards), obj.timeout))
                    elif h.get('disk') == 'JSONDisk':
                        it = man['caches']['json']['items'][0]
                        if type(obj.disk).__name__ != 'JSONDisk' or obj.get(it['k'], default='<absent>') != vals.dec(it['v']):
                            bad('pickled-handle:' + hname, 'disk %s' % type(obj.disk).__name__)
                    else:
                        fresh = dc.Cache(os.path.join(root, h['dir']))
                        if obj.timeout != h['timeout'] or len(obj) != len(fresh) or sorted(fp(k) for k in obj) != sorted(fp(k) for k in fresh):
                            bad('pickled-handle:' + hname, 'timeout %r, %d items (a fresh handle: %d)' % (obj.timeout, len(obj), len(fresh)))
                        fresh.close()
                finally:
                    closer()
                if violations:
                    break
        probes['fixture_items'] = n
    finally:
        world.close()
    digest = hashlib.sha256(json.dumps(case, sort_keys=True).encode()).hexdigest()
    return {'violations': violations, 'digest': digest, 'steps': n, 'switches': 0, 'fired': {}, 'probes': probes,
            'virtual_s': 0.0, 'nontrivial': True, 'outcome': {'items_read': n}}


def run_case(case):
    kind = case['cfg']['kind']
    if kind == 'fixture':
        return run_fixture(case)
    if kind == 'objects':
        return run_objects(case)
    return run_hist(case)


def shrink_candidates(case):
    if case['cfg']['kind'] == 'hist':
        from .c03 import shrink_candidates as sc
        return sc(case)
    if case['cfg']['kind'] == 'objects':
        def gen():
            ev = case['cfg']['events']
            for i in range(len(ev)):
                if len(ev) > 1:
                    c = copy.deepcopy(case)
                    del c['cfg']['events'][i]
                    yield c
        return gen()
    return iter(())
