"""C14 - lock timeouts fail cleanly: Cache raises Timeout, sharded caches
report through the return value, nothing changes, no value file is left; with
retry the call waits and succeeds; lock-free lookups keep working.

A holder takes the database write lock (a real BEGIN IMMEDIATE on its own
connection) exactly when the victim's call reaches a chosen seam event -
before the call or at any event that precedes its BEGIN, e.g. between the
value-file write and BEGIN - and releases it after a virtual duration shorter
or longer than the victim's timeout.  The lock point is enumerated over the
seam events of the call (thorough) or sampled (quick).  DESIGN.md section 9, C14."""
import copy
import os
import sqlite3
import json
import random

from .. import conc, seqcache, vals
from ..audit import audit, check_messages, listing
from ..kernel import SimIncident
from ..ops import fp, run_op
from ..seq import RawView
from . import c05

PROPERTY = 'C14'
LEVEL = 'fault_enumeration'
QUICK_S = 40
THOROUGH_S = 600
BATCH = 2
MIN_RUNS = 8
RULE = ('one evaluation = one simulated run: a victim client performs a short setup and then ONE data operation of Cache / '
        'FanoutCache / DjangoCache / Deque / Index, or one complete use of a recipe (Lock, RLock, BoundedSemaphore, Averager, memoize, memoize_stampede, throttle, barrier - all of which promise to wait), or the opening of a second handle on the directory (also with one statement of the open answered "database is locked" once, enumerated over its statements: the open fails loudly or finds the stored settings, and a lookup whose value file another process replaces at the lock point) (retry on or off, inline or file-backed value, statistics / LRU / LFU settings '
        'that turn reads into writes) while a holder takes the write lock of the relevant database at seam event k of that call '
        '(k enumerated over all events of the call in the thorough tier, sampled in the quick tier; k=1 is "before the call") and '
        'keeps it for a virtual duration shorter or longer than the victim\'s timeout; the outcome is compared with the same call '
        'run without the holder, and the physical rows and the directory listing before and after are compared; non-trivial = the '
        'holder obtained the lock during the call; distinct = SHA-256 of the seam event log')
RULE += ' ' + "In one case in seven (Cache / FanoutCache / DjangoCache targets with an evicting policy) the size limit is put at the present volume before the call, so the call's write also evicts (cull_limit 1-2)."
RULE += ' ' + 'A lookup under a recency / frequency policy that is answered as in the baseline must also be recorded as in the baseline (access count, access time).'
RULE += ' ' + 'DjangoCache targets also call get_many and has_key; a lookup that needs no write is flagged when it takes as long as the lock is held.'
RULE += ' ' + 'Index targets also compare with a mapping and list their keys.'
ASSUMPTIONS = ['the holder is a raw connection holding BEGIN IMMEDIATE (what a long transaction, check() or a slow writer in another process looks like)',
               'SQLite busy timeout is emulated event-driven in virtual time']
PROBES = ('lock_taken', 'timeout_raised', 'failure_value', 'retry_waited', 'lock_before_begin_after_file', 'lockfree_lookup_under_lock',
          'bulk_partial_timeout', 'replaced_under_lookup', 'open_with_transient_busy', 'open_failed_loudly', 'expired_during_wait', 'replaced_by_expired_item',
          'lookup_answered_but_not_recorded')
TECHNIQUE = 'deterministic simulation with lock-contention injection: lock acquisition point enumerated over the seam events of the call, virtual-time busy timeout, before/after physical state comparison'
LEVEL_TEXT = ('fault enumeration: calls are sampled by seed; for each call the instant at which another connection takes the write '
              'lock is enumerated over every seam event of the call (thorough tier) and the hold time is drawn on both sides of the '
              'timeout, so the window between value-file write and BEGIN and every retry path is decided for that call.')
LEVEL_NOTE = 'trusted: SQLite locking (real), the virtual-time busy-timeout emulation in the seam, tmpfs'

TXN_OPS = ('set', 'add', 'incr', 'decr', 'touch', 'pop', 'delete', 'clear', 'evict', 'expire', 'cull', 'push', 'pull', 'peek', 'peekitem')
LOCKFREE = ('contains', 'len', 'iter', 'volume')


def factory(dc, path, cfg):
    kind = cfg['target']
    settings = dict(cfg.get('settings', {}))
    if kind == 'recipe':
        return dc.Cache(path, timeout=cfg.get('timeout', 0.05), **settings)
    if kind == 'django':
        from .. import seams
        mod = seams.install_django()
        params = {'SHARDS': cfg.get('shards', 2), 'DATABASE_TIMEOUT': cfg.get('timeout', 0.010), 'OPTIONS': settings}
        return mod.DjangoCache(path, params)
    return conc.default_factory(dc, path, cfg)


def gen_case(seed, tier):
    rng = random.Random('%s/c14' % seed)
    target = rng.choice(('cache', 'cache', 'cache', 'fanout', 'fanout', 'django', 'deque', 'index', 'recipe'))
    mfs = rng.choice((0, 8, 8, 2 ** 15))
    big_n = {0: 12, 8: 40, 2 ** 15: 2 ** 15 + 5}[mfs]
    settings = {'disk_min_file_size': mfs}
    if target in ('cache', 'fanout', 'django', 'recipe'):      # for recipes too: these settings turn their lookups into writes
        settings['eviction_policy'] = rng.choice(('least-recently-stored', 'least-recently-stored', 'least-recently-used',
                                                  'least-frequently-used', 'none'))
        settings['statistics'] = rng.choice((0, 0, 1))
    timeout = {'cache': rng.choice((0.05, 1.0, 60)), 'fanout': 0.010, 'django': 0.010, 'deque': 60, 'index': 60,
               'recipe': rng.choice((0.05, 1.0))}[target]
    setup = []
    keys = ['a', 'b']
    for j in range(rng.randint(0, 4)):
        if target == 'deque':
            setup.append({'op': 'append', 'v': c05.uniq_value(rng, 0, j, big_n)})
        elif target == 'index':
            setup.append({'op': 'setitem', 'k': rng.choice(keys), 'v': c05.uniq_value(rng, 0, j, big_n)})
        else:
            op = {'op': 'set', 'k': rng.choice(keys + ['n']), 'v': c05.uniq_value(rng, 0, j, big_n), 'retry': True}
            if op['k'] == 'n':
                op['v'] = rng.randrange(100)
            if rng.random() < 0.3:
                op['tag'] = 't1'
            if rng.random() < 0.3:
                op['expire'] = rng.choice((100000, 1000000))   # far beyond any hold time: waiting must not expire the setup
            setup.append(op)
    bulk = target == 'cache' and rng.random() < 0.15
    if bulk:
        for j in range(rng.choice((120, 230))):
            setup.append({'op': 'set', 'k': 1000 + j, 'v': j, 'tag': 't1', 'expire': 1, 'retry': True})
        setup.append({'op': 'advance', 'dt': 5})
    op = gen_target_op(rng, target, keys, big_n, bulk)
    if op.get('op') == 'check':
        setup.append({'op': 'damage'})      # an unknown file in every database directory: a complete report is never empty
    if target in ('cache', 'fanout', 'django') and settings.get('eviction_policy') != 'none' and rng.random() < 0.15:
        # a cache that has reached its size limit (the normal state of a long-lived one): every write also evicts
        # (not for the recipes: their keys are documented to need a cache that does not evict them)
        settings['cull_limit'] = rng.choice((1, 2))
        setup.append({'op': 'reset', 'key': 'size_limit', 'value': 'volume'})
    hold = rng.choice(('short', 'long', 'long'))
    dur = timeout * rng.choice((0.1, 0.5)) if hold == 'short' else timeout * rng.choice((1.5, 3.0, 7.5))
    if hold == 'long' and timeout <= 0.05 and rng.random() < 0.15:
        dur = timeout * rng.choice((1100, 2600))      # a caller that retries goes through more than a thousand timeouts
    cfg = {'target': target, 'settings': settings, 'timeout': timeout, 'shards': rng.choice((1, 2, 3)), 'maxlen': None,
           'topology': 'procs', 'sched': {'kind': 'uniform'}, 'clock': {'mode': 'frozen'}, 'yield_clock': False,
           'hold': hold, 'dur': dur, 'step_cap': 80000}
    if target == 'cache' and rng.random() < 0.10:
        # the item the call is about expires WHILE the call waits for the lock (retry asked for): by the time the call can
        # act the item is gone, so it is not pulled, popped, touched back to life, incremented or reported present (C04)
        cfg['expires_in_wait'] = True
        cfg['settings'] = settings = {'disk_min_file_size': mfs}
        cfg['hold'] = 'long'
        ttl = rng.choice((0.5, 2.0))
        cfg['dur'] = ttl * rng.choice((2, 5))
        cfg['timeout'] = timeout = rng.choice((0.05, 60))
        name = rng.choice(('pull', 'peek', 'pop', 'touch', 'incr', 'add', 'delete', 'get'))
        if name in ('pull', 'peek'):
            setup = [{'op': 'push', 'v': c05.uniq_value(rng, 0, 0, big_n), 'prefix': 'q', 'expire': ttl, 'retry': True}]
            op = {'op': name, 'prefix': 'q', 'retry': True}
        elif name == 'incr':
            setup = [{'op': 'set', 'k': 'n', 'v': 41, 'expire': ttl, 'retry': True}]
            op = {'op': 'incr', 'k': 'n', 'retry': True, 'default': rng.choice((0, 100))}
        else:
            setup = [{'op': 'set', 'k': 'a', 'v': c05.uniq_value(rng, 0, 0, big_n), 'expire': ttl, 'retry': True}]
            op = {'op': name, 'k': 'a', 'retry': True}
            if name == 'add':
                op['v'] = c05.uniq_value(rng, 1, 1, big_n)
            if name == 'touch':
                op['expire'] = 1000
            if name in ('pop', 'get'):
                op['default'] = 'dflt'
        cfg['ttl'] = ttl
    elif target == 'cache' and rng.random() < 0.08:
        # a second handle opens the directory (no arguments) while the holder has the write lock, and - enumerated over the
        # statements of the open - with one statement answered "database is locked" once (what a reader meets during WAL
        # recovery or the last-close checkpoint of another process): the open waits / retries and finds the stored settings
        cfg['settings'] = settings = {'disk_min_file_size': mfs, 'cull_limit': 3, 'size_limit': 7654321, 'statistics': 1,
                                      'eviction_policy': 'least-frequently-used', 'disk_pickle_protocol': 2, 'tag_index': 1}
        cfg['hold'] = 'long'
        cfg['dur'] = rng.choice((0.2, 1.0, 3.0))
        op = {'op': 'open_settings', 'retry': True}
    elif target in ('cache', 'fanout') and rng.random() < 0.12:
        # a lookup of a file-backed value whose file is replaced by another process (committed) at the lock point, which
        # then keeps the write lock: the lookup falls back to a second look under the lock, with the caller's retry choice
        cfg['replace'] = True
        cfg['replace_expired'] = rng.random() < 0.4      # the value the other process stored has already expired again
        cfg['settings'] = settings = {'disk_min_file_size': 8}
        setup = [{'op': 'set', 'k': 'a', 'v': {'big': ['bytes', 40, 'old']}, 'retry': True}]
        op = {'op': rng.choice(('get', 'get', 'getitem')), 'k': 'a'}
        if op['op'] == 'get' and rng.random() < 0.6:
            op['retry'] = True
        if op['op'] == 'get' and rng.random() < 0.3:
            op['default'] = 'dflt'
    return {'seed': seed, 'cfg': cfg, 'progs': {'v': setup + [{'op': 'snap'}, op, {'op': 'snap'}]}, 'faults': []}


RECIPE_OPS = ('r_lock', 'r_rlock', 'r_sem', 'r_avg_add', 'r_avg_pop', 'r_memo', 'r_stampede', 'r_throttle', 'r_barrier')


def gen_target_op(rng, target, keys, big_n, bulk):
    k = rng.choice(keys)
    if target == 'recipe':
        # the recipes promise to wait for the database (every cache call they make passes retry=True)
        op = {'op': rng.choice(RECIPE_OPS)}
        if op['op'] == 'r_avg_add':
            op['v'] = rng.choice((1, 2.5, -3))
        return op
    if target == 'deque':
        name = rng.choice(('append', 'appendleft', 'dpop', 'dpopleft', 'dpeek', 'dlist', 'dextend', 'dextendleft', 'diadd', 'drotate',
                           'dreverse', 'dclear', 'dsetitem', 'ddelitem', 'dmaxlen'))
        op = {'op': name}
        if name.startswith('append') or name == 'dsetitem':
            op['v'] = c05.uniq_value(rng, 1, 0, big_n)
        if name in ('dextend', 'dextendleft', 'diadd'):
            op['vs'] = [c05.uniq_value(rng, 1, b, big_n) for b in range(rng.randint(1, 3))]
        if name == 'drotate':
            op['n'] = rng.choice((1, -1, 2))
        if name in ('dsetitem', 'ddelitem'):
            op['i'] = rng.choice((0, -1))
        if name == 'dmaxlen':
            op['n'] = rng.choice((1, 2))
        return op
    if target == 'index':
        name = rng.choice(('setitem', 'getitem', 'delitem', 'ipop', 'setdefault', 'popitem', 'contains', 'len', 'items', 'iupdate', 'iclear',
                           'eqdict', 'eqdict', 'keys'))      # comparisons and views: reads of the mapping interface
        op = {'op': name}
        if name in ('eqdict', 'keys'):
            return op
        if name == 'iupdate':
            op['items'] = [[rng.choice(keys), c05.uniq_value(rng, 1, b, big_n)] for b in range(rng.randint(1, 3))]
            return op
        if name not in ('popitem', 'len', 'items', 'iclear'):
            op['k'] = k
        if name in ('setitem', 'setdefault'):
            op['v'] = c05.uniq_value(rng, 1, 0, big_n)
        if name == 'ipop':
            op['default'] = 'dflt'
        return op
    if bulk:
        name = rng.choice(('clear', 'evict', 'expire', 'cull'))
        op = {'op': name}
        if name == 'evict':
            op['tag'] = 't1'
        if rng.random() < 0.3:
            op['retry'] = True
        return op
    names = ['set', 'set', 'add', 'incr', 'decr', 'touch', 'pop', 'delete', 'get', 'get', 'contains', 'len', 'iter',
             'clear', 'evict', 'expire', 'cull', 'setitem', 'getitem', 'delitem', 'read']
    if target in ('cache', 'fanout'):
        names += ['check']
    if target == 'django':
        names += ['get_many', 'get_many', 'has_key']      # the contract's other lookups
    if target == 'cache':
        names += ['push', 'pull', 'peek', 'peekitem', 'volume']
    name = rng.choice(names)
    op = {'op': name}
    if name in ('set', 'add', 'setitem', 'push'):
        op['v'] = c05.uniq_value(rng, 1, 0, big_n)
    if name in ('set', 'add', 'incr', 'decr', 'touch', 'pop', 'delete', 'get', 'contains', 'setitem', 'getitem', 'delitem', 'read'):
        op['k'] = 'n' if name in ('incr', 'decr') else k
    if name == 'evict':
        op['tag'] = 't1'
    if name == 'get_many':
        op['ks'] = ['a', 'b', 'n']
    if name == 'has_key':
        op['k'] = k
    if name in ('get', 'pop') and rng.random() < 0.5:
        op['default'] = 'dflt'
    if name == 'push':
        op['prefix'] = 'q'
    if name in ('pull', 'peek'):
        op['prefix'] = rng.choice(('q', None))
    if name == 'peekitem':
        pass
    if name in TXN_OPS + ('get', 'check') and name not in ('peek', 'peekitem') and rng.random() < 0.4:
        op['retry'] = True
    if name in ('peek', 'peekitem') and rng.random() < 0.4:
        op['retry'] = True
    if target == 'django':
        # DjangoCache defaults to retry=True for writes; make the choice explicit
        if name in ('set', 'add', 'touch', 'pop', 'delete', 'incr', 'decr') and 'retry' not in op and rng.random() < 0.5:
            op['retry'] = False     # otherwise the backend's own default applies: these methods wait (retry=True)
        if name in ('incr', 'decr'):
            op['default'] = 0
    return op


REPLACED = b'R' * 40


def _replace_file(directory, expired=False):
    """What another process's committed set() of a file-backed value leaves: the row names a new file, the old one is gone.
    Done with the real sqlite3 / os modules (no seam events): it is the environment, not the client under test."""
    rc = sqlite3.connect(os.path.join(directory, 'cache.db'), timeout=0, isolation_level=None)
    try:
        row = rc.execute('SELECT rowid, filename FROM Cache WHERE filename IS NOT NULL ORDER BY rowid LIMIT 1').fetchone()
        if row is None:
            return False
        rel = os.path.join('zz', 'yy', 'replaced.val')
        os.makedirs(os.path.join(directory, 'zz', 'yy'), exist_ok=True)
        with open(os.path.join(directory, rel), 'wb') as fh:
            fh.write(REPLACED)
        rc.execute('UPDATE Cache SET filename = ?, size = ? WHERE rowid = ?', (rel, len(REPLACED), row[0]))
        if expired:
            rc.execute('UPDATE Cache SET expire_time = 1.0 WHERE rowid = ?', (row[0],))      # long past on every clock
        os.remove(os.path.join(directory, row[1]))
        return True
    except sqlite3.OperationalError:
        return False
    finally:
        rc.close()


def physical(path_list):
    """Rows (data columns) and directory listing of every database directory."""
    out = []
    for d in path_list:
        try:
            rv = RawView(d, timeout=0)
            rv.rowids()
        except sqlite3.OperationalError:
            return None      # the database is held exclusively at this moment

        rows = [(r[0], fp(bytes(r[1]) if isinstance(r[1], (bytes, memoryview)) else r[1]), r[2], r[4], r[7], r[8], r[9], r[10])
                for r in rv.rows()]
        full = [(r[0], r[3], r[5], r[6]) for r in rv.rows()]
        rv.close()
        out.append({'rows': rows, 'meta': full, 'files': listing(d)})
    return out


def dirs_of(target, kind):
    if kind in ('fanout',):
        return [c.directory for c in target._shards]
    if kind == 'django':
        return [c.directory for c in target._cache._shards]
    if kind in ('deque', 'index'):
        return [target.cache.directory]
    return [target.directory]


def _run(case):
    cfg = case['cfg']
    kind = cfg['target']
    probes = {}
    snaps = []
    state = {}
    lock = case.get('lock')       # {'k': seam index in the target op}

    def prepare(world, main):
        state['main'] = main
        state['dirs'] = dirs_of(main, kind)

    def extra(world, main, tasks):
        if not lock:
            return
        sim = world.sim
        victim = tasks['v']
        prog = case['progs']['v']
        target_idx = len(prog) - 2
        op = prog[target_idx]
        # which database does the call need?
        dirs = state['dirs']
        di = 0
        if kind in ('fanout', 'django') and 'k' in op:
            fan = main if kind == 'fanout' else main._cache
            key = vals.dec(op['k'])
            if kind == 'django':
                key = main.make_key(key)
            di = fan._hash(key) % fan._count
        elif kind in ('fanout', 'django'):
            di = lock.get('shard', 0) % len(dirs)
        from .. import seams
        hproc = sim.proc('holder')
        hold = {}

        def holder_fn():
            con = seams.SimConn(sim, dirs[di] + '/cache.db', 0, {'isolation_level': None})
            hold['con'] = con
            sim.block_current(('event', 'go'))
            if not hold.get('locked'):
                return False
            sim.sleep(cfg['dur'], exact=True)
            con.execute('ROLLBACK')
            return True

        holder = sim.spawn('holder', hproc, holder_fn)
        state['holder'] = holder

        def trigger(task, kind_, detail):
            con = hold.get('con')
            if con is None:
                return
            if cfg.get('replace') and not state.get('replaced'):
                state['replaced'] = _replace_file(dirs[di], cfg.get('replace_expired'))
            try:
                con.real.execute('BEGIN IMMEDIATE')
            except Exception:
                state['lock_failed'] = True
                if holder.state == 'blocked':
                    sim._unblock(holder)
                return
            hold['locked'] = True
            state['lock_at'] = [kind_, detail]
            sim.fire('lock')
            sim.event('LOCK', kind_, detail)
            if holder.state == 'blocked':
                sim._unblock(holder)

        sim.faults.append({'f': 'hook', 'task': 'v', 'op': target_idx, 'k': lock['k'], 'fn': trigger})
        state['release_holder'] = lambda: (holder.state == 'blocked') and sim._unblock(holder)

    def client_snap(target):
        snaps.append(physical(state['dirs']))

    def inspect(world, main, targets, out):
        out['audits'] = [audit(d) for d in state['dirs']]
        out['final'] = physical(state['dirs'])

    c = copy.deepcopy(case)
    out = run_with_snap(c, inspect, prepare, extra, client_snap, state)
    violations = out['violations']
    base = {'digest': out.get('digest'), 'steps': out.get('steps', 0), 'switches': out.get('switches', 0),
            'fired': out.get('fired', {}), 'virtual_s': out.get('virtual_s', 0.0), 'picks': out.get('picks')}
    if conc.incident_violations(out, PROPERTY, violations):
        return dict(base, violations=violations, probes=out.get('probes', {}), nontrivial=True)
    for name, msg in conc.unexpected_exceptions(out):
        violations.append({'rule': 'C14/escaped-exception', 'sig': msg.split(':')[0], 'detail': '%s: %s' % (name, msg)})
    hist = [h for h in out['history'] if h['task'] == 'v']
    real = [h for h in hist if h['op'].get('op') != 'snap']
    target_rec = real[-1] if real else None
    res = {'result': target_rec['res'] if target_rec else None, 'snaps': snaps, 'final': out.get('final'),
           'seams': target_rec.get('seams') if target_rec else 0, 'sql': target_rec.get('sql') if target_rec else 0,
           'locked': bool(out['fired'].get('lock')),
           'elapsed': (target_rec.get('t_ret', 0) - target_rec.get('t_inv', 0)) if target_rec and target_rec.get('t_ret') is not None else None,
           'lock_at': state.get('lock_at')}
    for problems, empties, info in out.get('audits', []):
        problems = [p for p in problems if not (p[0] == 'file-unknown' and p[1] == 'stray.bin')]      # the check victim's own setup
        if problems:
            violations.append({'rule': 'C14/audit', 'sig': ','.join(sorted({p[0] for p in problems})), 'detail': str(problems[:3])})
    pr = dict(out['probes'])
    pr.update(probes)
    return dict(base, violations=violations, probes=pr, nontrivial=res['locked'], outcome={'result': res['result'], 'lock_at': res['lock_at']},
                detail=res)


def run_with_snap(case, inspect, prepare, extra, client_snap, state):
    """conc.run_and_inspect with a 'snap' pseudo-operation executed by the victim."""
    from .. import ops as opsmod
    orig = opsmod._do

    def patched(c, op, ctx):
        if op.get('op') == 'snap':
            client_snap(c)
            return 'None'
        if op.get('op') == 'damage':
            for d in state['dirs']:
                with open(os.path.join(d, 'stray.bin'), 'wb') as fh:
                    fh.write(b'junk')
            return 'None'
        return orig(c, op, ctx)

    opsmod._do = patched
    try:
        return conc.run_and_inspect(case, inspect, factory=factory, prepare=prepare, extra=extra)
    finally:
        opsmod._do = orig


def data_rows(snap):
    return [s['rows'] for s in snap], [s['files'] for s in snap]


def judge(case, base, run, violations, probes):
    """Compare a run under lock contention with the fault-free baseline."""
    cfg = case['cfg']
    kind = cfg['target']
    op = case['progs']['v'][-2]
    name = op['op']
    d = run['detail']
    b = base['detail']
    if not d['locked']:
        return
    probes['lock_taken'] = 1
    res, bres = d['result'], b['result']
    if len(d['snaps']) < 2 or len(b['snaps']) < 2:
        return
    if any(x is None for x in d['snaps'] + b['snaps']):
        if res != bres:
            violations.append({'rule': 'C14/retry-did-not-succeed', 'sig': '%s.%s' % (kind, name),
                               'detail': 'op %s returned %s while the database was still held, baseline %s' % (json.dumps(op)[:100], res, bres)})
        return
    before, after = d['snaps'][0], d['snaps'][1]
    rows_b, files_b = data_rows(before)
    rows_a, files_a = data_rows(after)
    brows_a, bfiles_a = data_rows(b['snaps'][1])
    unchanged = rows_a == rows_b and files_a == files_b
    same_as_baseline = res == bres and rows_a == brows_a and [len(f) for f in files_a] == [len(f) for f in bfiles_a]
    if name in ('get', 'getitem', 'read', 'get_many') and kind in ('cache', 'fanout', 'django') and _get_writes(cfg):
        # a lookup that records the use of the item (recency / frequency policies): answered as in the baseline means
        # recorded as in the baseline - a lookup that could not get the lock is no use of the item (C09)
        # (the access time is read after the wait for the lock: it may be later than in the baseline, never earlier)
        meta_a = [m for x in after for m in x['meta']]
        bmeta_a = [m for x in b['snaps'][1] for m in x['meta']]
        if len(meta_a) != len(bmeta_a) or any(m[0] != bm[0] or m[3] != bm[3] or m[2] < bm[2] for m, bm in zip(meta_a, bmeta_a)):
            same_as_baseline = False
            probes['lookup_answered_but_not_recorded'] = 1
    if name in ('r_throttle', 'r_stampede'):
        # these store clock readings (last admission time, measured duration): after a wait the values differ by design
        same_as_baseline = res == bres and [len(x) for x in rows_a] == [len(x) for x in brows_a]
    if cfg.get('expires_in_wait'):
        # did the call have to wait past the expiry?  (lock obtained before the statement that takes the write lock)
        lock_at = d['lock_at'] or [None, None]
        before_begin = (case.get('lock') or {}).get('k') == 1 or (lock_at[0] == 'sql' and str(lock_at[1]).startswith('BEGIN'))
        if not before_begin or name == 'get':
            return      # the lock point lies after the call's own BEGIN (it does not wait), or the lookup takes no lock
        probes['expired_during_wait'] = 1
        from ..ops import fp_spec
        want = {'pull': ('ok', 't(None,None)'), 'peek': ('ok', 't(None,None)'), 'pop': ('ok', fp_spec('dflt')), 'touch': ('ok', 'False'),
                'delete': ('ok', 'False'), 'add': ('ok', 'True'),
                'incr': ('ok', fp((op.get('default', 0) if name == 'incr' else 0) + 1))}[name]
        if res != want:
            violations.append({'rule': 'C14/expired-while-waiting', 'sig': '%s.%s' % (kind, name),
                               'detail': 'op %s waited %.1fs for the lock while its item (ttl %.1fs) expired: result %s, an expired item '
                                         'gives %s' % (json.dumps(op)[:100], cfg['dur'], cfg['ttl'], res, want)})
        return
    if cfg.get('replace'):
        probes['replaced_under_lookup'] = 1
        new_fp = ('ok', fp(REPLACED))
        if cfg.get('replace_expired'):
            # the replacement is no live item: the second look finds nothing (C04)
            new_fp = ('exc', 'KeyError') if name == 'getitem' else failure_value(op, name)
            probes['replaced_by_expired_item'] = 1
        long_hold_ = cfg['hold'] == 'long'
        waits = bool(op.get('retry')) or name == 'getitem'
        ok = res in (bres, new_fp)
        if not ok and not waits and long_hold_:
            # no retry asked for and the lock outlives the timeout: Timeout (Cache) / the default (FanoutCache)
            is_to = res is not None and res[0] == 'exc' and res[1] == 'Timeout'
            ok = is_to if kind == 'cache' else res == failure_value(op, name)
        if not ok:
            violations.append({'rule': 'C14/replaced-value-lookup', 'sig': '%s.%s:%s' % (kind, name, 'retry' if waits else 'plain'),
                               'detail': 'op %s while the value file was replaced and the lock held (%s hold %.3fs, timeout %s): result %s; '
                                         'old value %s, new value %s' % (json.dumps(op), cfg['hold'], cfg['dur'], cfg['timeout'], res, bres, new_fp)})
        return
    long_hold = cfg['hold'] == 'long'
    retry = (bool(op.get('retry')) or kind in ('deque', 'index', 'recipe') or name in ('setitem', 'getitem', 'delitem')
             or (name == 'read' and kind in ('fanout', 'django')))   # Cache.read(key, retry=False) does not wait
    if kind == 'django' and name in ('set', 'add', 'touch', 'pop', 'delete', 'incr', 'decr') and 'retry' not in op:
        retry = True
    desc = 'op %s, lock taken at %s, hold %s (%.3fs, timeout %s): result %s, baseline %s' % (
        json.dumps(op)[:120], d['lock_at'], cfg['hold'], cfg['dur'], cfg['timeout'], res, bres)
    lock_at = d['lock_at'] or [None, None]
    if lock_at[0] == 'sql' and str(lock_at[1]).startswith('BEGIN') and any(f for f in files_b if f):
        pass
    if lock_at[0] == 'sql' and str(lock_at[1]).startswith('BEGIN') and op.get('v') is not None:
        probes['lock_before_begin_after_file'] = 1
    is_timeout = res is not None and res[0] == 'exc' and res[1] == 'Timeout'
    if kind in ('fanout', 'django', 'deque', 'index', 'recipe') and is_timeout and name != 'check':
        violations.append({'rule': 'C14/timeout-escaped', 'sig': '%s.%s' % (kind, name), 'detail': desc})
        return
    if res is not None and res[0] == 'exc' and res[1] not in ('Timeout', 'KeyError', 'IndexError', 'ValueError', 'TypeError'):
        violations.append({'rule': 'C14/unexpected-exception', 'sig': '%s.%s:%s' % (kind, name, res[1]), 'detail': desc})
        return
    if name == 'check' and not same_as_baseline:
        # check() either reports everything (it waited) or raises Timeout - Cache and FanoutCache alike, the one FanoutCache
        # method documented to raise; a shorter list returned in silence would read as "consistent"
        if not is_timeout or retry or not long_hold:
            violations.append({'rule': 'C14/check-incomplete-or-failed', 'sig': '%s.check' % kind, 'detail': desc})
        else:
            probes['timeout_raised'] = 1
        return
    lockfree = name in LOCKFREE or name in ('has_key', 'eqdict', 'keys') or (name in ('get', 'getitem', 'read', 'get_many') and not _get_writes(cfg))
    if lockfree and long_hold and d.get('elapsed') is not None and d['elapsed'] >= 0.9 * cfg['dur'] and cfg['dur'] > 0:
        # a lookup that needs no write keeps working while somebody else holds the write lock: it does not wait for the release
        violations.append({'rule': 'C14/lock-free-lookup-waited', 'sig': '%s.%s' % (kind, name),
                           'detail': 'the call took %.3f virtual s, the lock was held for %.3f s; %s' % (d['elapsed'], cfg['dur'], desc)})
        return
    if same_as_baseline:
        if retry and long_hold:
            probes['retry_waited'] = 1
        if name in LOCKFREE:
            probes['lockfree_lookup_under_lock'] = 1
        return
    # not the baseline outcome: it must be a clean failure
    if lockfree:
        if res != bres:
            violations.append({'rule': 'C14/lock-free-lookup-affected', 'sig': '%s.%s' % (kind, name), 'detail': desc})
        return
    if retry:
        violations.append({'rule': 'C14/retry-did-not-succeed', 'sig': '%s.%s' % (kind, name), 'detail': desc})
        return
    if not long_hold:
        violations.append({'rule': 'C14/failed-although-lock-released-in-time', 'sig': '%s.%s' % (kind, name), 'detail': desc})
        return
    # long hold, no retry: failure expected
    bulk = name in ('clear', 'evict', 'expire', 'cull')
    if kind == 'cache':
        if not is_timeout:
            violations.append({'rule': 'C14/no-timeout-raised', 'sig': '%s.%s' % (kind, name), 'detail': desc})
            return
        probes['timeout_raised'] = 1
        if bulk:
            n = res[2] if len(res) > 2 else None
            removed = sum(len(x) for x in rows_b) - sum(len(x) for x in rows_a)
            if n != removed:
                violations.append({'rule': 'C14/bulk-timeout-count', 'sig': name,
                                   'detail': 'Timeout(%r) but %d items were removed; %s' % (n, removed, desc)})
            if removed:
                probes['bulk_partial_timeout'] = 1
            return
    else:
        probes['failure_value'] = 1
        want = failure_value(op, name)
        if bulk:
            return
        if want is not None and res != want:
            violations.append({'rule': 'C14/wrong-failure-value', 'sig': '%s.%s' % (kind, name),
                               'detail': 'expected %s; %s' % (want, desc)})
    if not unchanged:
        what = 'rows' if rows_a != rows_b else 'files'
        violations.append({'rule': 'C14/failed-operation-had-effect', 'sig': '%s.%s:%s' % (kind, name, what),
                           'detail': '%s; files before %s after %s' % (desc, [len(f) for f in files_b], [len(f) for f in files_a])})


def _get_writes(cfg):
    s = cfg.get('settings', {})
    return bool(s.get('statistics')) or s.get('eviction_policy') in ('least-recently-used', 'least-frequently-used')


def failure_value(op, name):
    if name in ('set', 'add', 'touch', 'delete'):
        return ('ok', 'False')
    if name in ('incr', 'decr'):
        return ('ok', 'None')
    if name in ('pop', 'get'):
        from ..ops import fp_spec
        return ('ok', fp_spec(op['default']) if 'default' in op else 'None')
    return None


_BASE = {}


def run_case(case):
    """Self-contained: a case with a lock point is judged against the same
    case run without the holder."""
    if case.get('transient'):
        plain = {k: v for k, v in case.items() if k != 'transient'}
        key = json.dumps(plain, sort_keys=True)
        base = _BASE.get(key)
        if base is None:
            _BASE.clear()
            base = _BASE[key] = _run(copy.deepcopy(plain))
        c = copy.deepcopy(plain)
        c['faults'] = [{'f': 'sqlerr', 'task': 'v', 'op': len(c['progs']['v']) - 2, 'n': case['transient'], 'msg': 'database is locked'}]
        r = _run(c)
        if not base['violations'] and 'detail' in r and 'detail' in base and r['fired'].get('sqlerr'):
            r['probes']['open_with_transient_busy'] = 1
            r['nontrivial'] = True
            failed_loudly = r['detail']['result'] is not None and r['detail']['result'][0] == 'exc'
            if failed_loudly:
                # statements of the open that the library does not retry (index creation): the open fails, nothing is altered
                r['probes']['open_failed_loudly'] = 1
                if r['detail'].get('final') != base['detail'].get('final'):
                    r['violations'].append({'rule': 'C14/open-under-contention', 'sig': 'rows-after-failed-open',
                                            'detail': 'statement %d of the open answered "database is locked" once, the open raised %s and rows or '
                                                      'files differ afterwards' % (case['transient'], r['detail']['result'][1])})
            elif r['detail']['result'] != base['detail']['result']:
                r['violations'].append({'rule': 'C14/open-under-contention', 'sig': 'settings',
                                        'detail': 'statement %d of the open answered "database is locked" once: the handle reports %s, '
                                                  'the stored settings are %s' % (case['transient'], r['detail']['result'], base['detail']['result'])})
            elif r['detail'].get('final') != base['detail'].get('final'):
                r['violations'].append({'rule': 'C14/open-under-contention', 'sig': 'rows',
                                        'detail': 'statement %d of the open answered "database is locked" once: rows or files differ afterwards' % case['transient']})
        r.pop('detail', None)
        return r
    if not case.get('lock'):
        r = _run(copy.deepcopy(case))
        r.pop('detail', None)
        return r
    plain = {k: v for k, v in case.items() if k != 'lock'}
    key = json.dumps(plain, sort_keys=True)
    base = _BASE.get(key)
    if base is None:
        _BASE.clear()
        base = _BASE[key] = _run(copy.deepcopy(plain))
    r = _run(copy.deepcopy(case))
    probes = {}
    if not base['violations'] and 'detail' in r and 'detail' in base:
        judge(case, base, r, r['violations'], probes)
    for kk, vv in probes.items():
        r['probes'][kk] = r['probes'].get(kk, 0) + vv
    r.pop('detail', None)
    return r


def runner_guarded(pid, fn, case):
    from ..runner import guarded
    return guarded(pid, fn, case)


def run_seed(seed, tier):
    case = gen_case(seed, tier)
    rng = random.Random('%s/c14-lock' % seed)
    results = []
    base = _run(copy.deepcopy(case))
    _BASE.clear()
    _BASE[json.dumps(case, sort_keys=True)] = base
    base = dict(base)
    base['case'] = case
    base['first_of_seed'] = True
    results.append(base)
    if base['violations']:
        base.pop('detail', None)
        return results
    nseams = (base.get('detail') or {}).get('seams') or 0
    points = list(range(1, nseams + 1))
    if tier == 'quick':
        points = sorted(set([1] + rng.sample(points, min(len(points), 5)))) if points else []
    elif len(points) > 150:
        points = sorted(set([1] + rng.sample(points, 150)))
    for k in points:
        c = copy.deepcopy(case)
        c['lock'] = {'k': k, 'shard': rng.randrange(3)}
        r = runner_guarded(PROPERTY, run_case, copy.deepcopy(c))
        r['case'] = c
        r['first_of_seed'] = False
        results.append(r)
        if r['violations']:
            break
    if case['progs']['v'][-2]['op'] == 'open_settings' and not any(r['violations'] for r in results):
        nsql = (base.get('detail') or {}).get('sql') or 0
        pts = list(range(1, nsql + 1))
        if tier == 'quick' and len(pts) > 8:
            pts = sorted(rng.sample(pts, 8))
        for n in pts:
            c = copy.deepcopy(case)
            c['transient'] = n
            r = runner_guarded(PROPERTY, run_case, copy.deepcopy(c))
            r['case'] = c
            r['first_of_seed'] = False
            results.append(r)
            if r['violations']:
                break
    base.pop('detail', None)
    results[0].setdefault('extra', {})['lock_points_enumerated'] = len(points)
    return results
