"""C05 - every single operation is atomic under concurrent threads and
processes.  Seeded schedules of 2-4 clients; oracle = linearizability against
the sequential key-value model, per-key weak consistency of iteration, no
escaping exception, directory audit at quiescence.  DESIGN.md section 9, C05."""
import json
import random

from .. import conc, kvmodel, lin, vals
from ..audit import audit, check_messages
from ..kernel import SimIncident
from ..ops import fp, fp_spec

PROPERTY = 'C05'
LEVEL = 'exploration'
QUICK_S = 30
THOROUGH_S = 420
BATCH = 8
RULE = ('one evaluation = one seeded simulated run: 2-4 clients (threads sharing one Cache object / own objects in one '
        'process / separate simulated processes) x 3-8 operations on 1-3 shared keys with unique inline and file-backed '
        'values, interleaved at every SQL statement, file-system call and clock read (plus source lines in a share of '
        'shared-object runs) by a seeded scheduler (uniform / sticky / PCT); in a tenth of the runs one client runs evict(tag) / expire() / clear() over 101-150 prefilled rows while the others replace rows it has yet to reach (a bulk removal is a series of atomic per-row steps, each taking a row only while it still matches; rows nobody wrote to must all be gone); non-trivial = at least one context switch '
        'between clients; distinct = distinct SHA-256 of the full seam event log')
RULE += ' ' + 'In one run in twelve the clients work on two counters that are removed and created again holding the same few small numbers (incr / pop / delete / set of 1 or 2).'
RULE += ' ' + 'In runs with a 60 s timeout and no injected stall or busy answer a call that raises Timeout is flagged.'
RULE += ' ' + 'In one run in sixteen two or three threads sharing one object call len() next to a store by one of them, every source line a pre-emption point, with one caller held up anywhere in its call and one at one of the last steps of a call (positions taken from an undisturbed first run of the same case).'
RULE += ' ' + 'In one run in fourteen the only item has expired before the clients start: one client peeks at an end (peekitem, either end) while others replace that key; a completed replacement is there at the end and peekitem reports the only item or KeyError.'
RULE += ' ' + "One seed in 211 is a sequential history of increments by the check's process (keeping a connection, opening further handles) and by fresh interpreters that come and go."
ASSUMPTIONS = ['interleaving granularity is the seam call (and sampled source lines in shared-object runs); SQLite statements are atomic',
               'iteration is checked for per-key weak consistency, not as an atomic snapshot (generator protocol)']
PROBES = ('lock_wait', 'stmt_blocked', 'tolerated_miss', 'file_backed_read', 'line_yield_runs', 'bulk_removal_races', 'iterations_over_pages', 'other_os_process')

KEYS = ['a', 'b', {'t': [1, 'x']}]
COUNTERS = ['n', 7]


def gen_case(seed, tier):
    rng = random.Random('%s/c05' % seed)
    if seed % 211 == 7:
        steps = ['mine'] + [rng.choice(('mine', 'mine', 'child', 'child', 'open', 'open_close')) for _ in range(rng.randint(4, 8))] + ['child']
        return {'seed': seed, 'cfg': {'kind': 'xproc', 'steps': steps}, 'progs': {}, 'faults': []}
    nclients = rng.choice((2, 2, 3, 3, 4))
    topo = rng.choice(('shared', 'own', 'procs'))
    mfs = rng.choice((0, 8, 8, 2 ** 15))
    big_n = {0: 12, 8: 40, 2 ** 15: 2 ** 15 + 5}[mfs]
    keys = rng.sample(KEYS, rng.choice((1, 2, 2, 3)))
    counters = rng.sample(COUNTERS, rng.choice((1, 1, 2)))
    policy = rng.choice(('least-recently-stored', 'least-recently-stored', 'least-recently-used',
                         'least-frequently-used', 'none'))
    settings = {'disk_min_file_size': mfs, 'eviction_policy': policy, 'statistics': rng.choice((0, 0, 1))}
    sched = rng.choice(({'kind': 'uniform'}, {'kind': 'sticky', 'p': rng.choice((0.5, 0.8, 0.95))},
                        {'kind': 'pct', 'd': rng.choice((1, 2, 3, 5)), 'horizon': rng.choice((100, 300, 800))}))
    line_p = rng.choice((0.0, 0.0, 0.03, 0.1)) if topo == 'shared' else 0.0
    faulty = rng.random() < 0.3
    progs = {}
    faults = []
    for ci in range(nclients):
        name = 'c%d' % ci
        prog = []
        nops = rng.randint(3, 8 if tier == 'thorough' else 6)
        for j in range(nops):
            prog.append(gen_op(rng, ci, j, keys, counters, big_n))
        progs[name] = prog
        if faulty:
            r = rng.random()
            if r < 0.5:
                faults.append({'f': 'busy1', 'task': name, 'op': rng.randrange(nops)})
            elif r < 0.8:
                faults.append({'f': 'stall', 'task': name, 'op': rng.randrange(nops), 'k': rng.randint(1, 6),
                               'dur': rng.choice((0.001, 0.5, 70.0))})
    if rng.random() < 0.12 and mfs in (0, 8):
        # replacement of a file-backed, tagged value next to readers using the (value, tag) variant of get:
        # the window between the lock-free SELECT and the file open, and the fallback that follows it
        k = rng.choice(keys)
        w = [{'op': 'set', 'k': k, 'v': {'big': ['bytes', big_n, 'w-%d' % j]}, 'tag': 'tag-w-%d' % j, 'retry': True} for j in range(rng.randint(2, 4))]
        r = [{'op': 'get', 'k': k, 'tag': True} for _ in range(rng.randint(2, 4))]
        progs = {'c0': w, 'c1': r}
        if rng.random() < 0.5:
            progs['c2'] = [{'op': 'get', 'k': k, 'tag': True, 'default': 'dflt'} for _ in range(rng.randint(1, 3))]
        faults = []
        settings['statistics'] = 0
        settings['eviction_policy'] = rng.choice(('least-recently-stored', 'none'))
    if rng.random() < 0.08:
        # counters that come and go: two keys holding the same few small numbers, created by incr, removed, created again -
        # the rows change places while the numbers stay the same, so only the key tells two counters apart
        ck = rng.sample(COUNTERS, 2) if len(COUNTERS) >= 2 else ['n0', 'n1']
        progs = {}
        for ci in range(rng.choice((2, 2, 3))):
            prog = []
            for j in range(rng.randint(4, 7)):
                r = rng.random()
                k = rng.choice(ck)
                if r < 0.55:
                    prog.append({'op': 'incr', 'k': k, 'delta': 1, **({'retry': True} if rng.random() < 0.5 else {})})
                elif r < 0.8:
                    prog.append({'op': rng.choice(('pop', 'delete')), 'k': k, **({'retry': True} if rng.random() < 0.5 else {})})
                elif r < 0.9:
                    prog.append({'op': 'set', 'k': k, 'v': rng.choice((1, 2))})
                else:
                    prog.append({'op': 'get', 'k': k})
            progs['c%d' % ci] = prog
        faults = []
    profile_stalls = None
    if rng.random() < 0.06:
        # threads sharing one object ask for its length while one of them stores and removes: an answer is a count the
        # cache had during the call, whatever the other callers of len() on that object are doing.  Every source line is a
        # pre-emption point here, and two callers are held up for a while: one anywhere in its call, one at one of the
        # last few steps of a call (positions are taken from a first, undisturbed run of the same case)
        topo = 'shared'
        line_p = 1.0
        sched = {'kind': 'uniform'}
        k = rng.choice(keys)
        progs = {'c0': [{'op': 'len'}],
                 'c1': [{'op': rng.choice(('set', 'add')), 'k': k, 'v': uniq_value(rng, 1, 0, big_n), 'retry': True}, {'op': 'len'}]}
        if rng.random() < 0.4:
            progs['c1'].insert(0, {'op': 'len'})
        if rng.random() < 0.4:
            progs['c2'] = [{'op': 'len'} for _ in range(rng.randint(1, 2))]
        if rng.random() < 0.3:
            progs['c1'] += [{'op': 'delete', 'k': k, 'retry': True}, {'op': 'len'}]
        profile_stalls = [{'task': 'c0', 'op': 0, 'frac': rng.random(), 'dur': rng.choice((0.5, 2.0, 5.0))},
                          {'task': 'c1', 'op': len(progs['c1']) - 1 if rng.random() < 0.7 else rng.randrange(len(progs['c1'])),
                           'from_end': rng.choice((0, 0, 1, 2, 3)), 'dur': rng.choice((7.0, 30.0, 70.0))}]
        faults = []
    expired_end = None
    if rng.random() < 0.07:
        # the item at the end of the cache has expired and is replaced by one client while another peeks at that end:
        # peeking removes the expired item and may never take a completed replacement with it (one key only, so that the
        # model needs no order: peekitem reports the only item there is, or KeyError)
        k = rng.choice(KEYS)
        expired_end = {'k': k, 'big': rng.random() < 0.5}
        progs = {'c0': [{'op': 'peekitem', 'last': rng.random() < 0.5, 'kfp': fp(vals.dec(k)), **({'retry': True} if rng.random() < 0.5 else {})}
                        for _ in range(rng.choice((1, 2, 3)))]}
        for ci in range(1, rng.choice((2, 2, 3))):
            prog = []
            for j in range(rng.randint(1, 3)):
                r = rng.random()
                if r < 0.6:
                    prog.append({'op': rng.choice(('set', 'set', 'add')), 'k': k, 'v': uniq_value(rng, ci, j, big_n), 'retry': True})
                elif r < 0.8:
                    prog.append({'op': 'get', 'k': k})
                else:
                    prog.append({'op': 'peekitem', 'last': rng.random() < 0.5, 'kfp': fp(vals.dec(k)), 'retry': True})
            progs['c%d' % ci] = prog
        faults = []
        settings['statistics'] = 0
        settings['eviction_policy'] = rng.choice(('least-recently-stored', 'none'))
    prefill = None
    if expired_end is None and rng.random() < 0.10:
        # a bulk removal (evict / expire / clear: batches of 100 rows, one transaction each) running next to writers that
        # replace rows it has yet to reach: a row may only go while it still matches - a completed replacement with
        # another tag and no expiry must survive evict('old') / expire()
        n = rng.choice((101, 120, 150))
        bulk = rng.choice(('evict', 'evict', 'expire', 'clear', 'iter', 'iter'))
        prefill = {'n': n, 'bulk': bulk}
        progs = {'c0': [{'op': bulk, 'retry': True}]}
        if bulk == 'evict':
            progs['c0'][0]['tag'] = 'old'
        if bulk == 'iter':
            # iteration (pages of 100 keys) next to clients removing keys it has passed and adding new ones: every key that
            # is there from start to end is reported exactly once
            n = prefill['n'] = rng.choice((150, 210, 260))
            progs['c0'] = [{'op': rng.choice(('iter', 'reversed', 'iterkeys'))} for _ in range(rng.choice((1, 2)))]
            if rng.random() < 0.5:
                # the loop body writes to the cache (waiting for the lock if need be) part-way through the iteration
                progs['c0'].append({'op': 'iter_mixed', 'take': rng.choice((1, 40, 100, 130)), 'reverse': rng.random() < 0.3,
                                    'then': {'op': 'set', 'k': 30000, 'v': uniq_value(rng, 0, 99, big_n), 'retry': True}})
            for ci in range(1, rng.choice((2, 3))):
                prog = []
                for j in range(rng.randint(3, 8)):
                    k = 10000 + rng.randrange(n)
                    r = rng.random()
                    if r < 0.6:
                        prog.append({'op': rng.choice(('delete', 'pop', 'delitem')), 'k': k, **({'retry': True} if r < 0.3 else {})})
                    elif r < 0.8:
                        prog.append({'op': 'set', 'k': 20000 + ci * 100 + j, 'v': uniq_value(rng, ci, j, big_n), 'retry': True})
                    else:
                        prog.append({'op': 'set', 'k': k, 'v': uniq_value(rng, ci, j, big_n), 'retry': True})
                progs['c%d' % ci] = prog
        for ci in range(1, rng.choice((2, 2, 3)) if bulk != 'iter' else 1):
            prog = []
            for j in range(rng.randint(2, 5)):
                k = 10000 + rng.choice((rng.randrange(n), rng.randrange(95, n), n + rng.randrange(3)))
                r = rng.random()
                if r < 0.6:
                    op = {'op': 'set', 'k': k, 'v': uniq_value(rng, ci, j, big_n), 'tag': 'new-c%d-%d' % (ci, j), 'retry': True}
                elif r < 0.75 and bulk == 'evict':
                    op = {'op': 'set', 'k': k, 'v': uniq_value(rng, ci, j, big_n), 'tag': 'old', 'retry': True}
                elif r < 0.9 and bulk != 'expire':
                    op = {'op': 'get', 'k': k, 'tag': True}
                else:
                    op = {'op': 'add', 'k': k, 'v': uniq_value(rng, ci, j, big_n), 'tag': 'new-c%d-%d' % (ci, j), 'retry': True}
                prog.append(op)
            progs['c%d' % ci] = prog
        faults = []
        settings['statistics'] = 0
        settings['eviction_policy'] = rng.choice(('least-recently-stored', 'none'))
    if any(f.get('f') == 'stall' and f.get('dur', 0) > 50 for f in faults):
        # an open retries its statements for 60 s and then gives up: under a 70 s stall of a lock holder that is what happens,
        # and it is neither a progress defect nor of interest here
        for name in progs:
            progs[name] = [op for op in progs[name] if op.get('op') != 'open_settings'] or [{'op': 'len'}]
    cfg = {'topology': topo, 'settings': settings, 'sched': sched, 'line_p': line_p, 'prefill': prefill, 'expired_end': expired_end, 'profile_stalls': profile_stalls,
           'dircollide': rng.random() < 0.5, 'post_stmt_yield': rng.random() < 0.5,
           'yield_clock': rng.random() < 0.7, 'clock': {'mode': rng.choice(('tick', 'frozen'))},
           'timeout': rng.choice((60, 60, 0.05))}
    return {'seed': seed, 'cfg': cfg, 'progs': progs, 'faults': faults}


def uniq_value(rng, ci, j, big_n):
    tag = 'c%d-%d' % (ci, j)
    r = rng.random()
    if r < 0.45:
        return {'b': tag.encode().hex()}
    if r < 0.85:
        return {'big': ['bytes', big_n, tag]}
    if r < 0.90:
        return {'big': ['str', big_n, tag]}
    if r < 0.96:
        # an object whose pickling calls back into Python: a pre-emption point in the middle of serialising one value
        return {'rec': [tag, rng.choice((0, big_n))]}
    return {'t': [tag, ci, j]}


def gen_op(rng, ci, j, keys, counters, big_n):
    r = rng.random()
    if r < 0.22:
        k = rng.choice(counters)
        name = rng.choice(('incr', 'incr', 'decr'))
        op = {'op': name, 'k': k, 'delta': rng.choice((1, 2, 5))}
        if rng.random() < 0.2:
            op['default'] = None
        elif rng.random() < 0.2:
            op['default'] = 10
        if rng.random() < 0.5:
            op['retry'] = True
        return op
    if r < 0.27:
        return {'op': 'set', 'k': rng.choice(counters), 'v': 1000 * (ci + 1) + j}
    if r < 0.30:
        return {'op': 'close'}     # closes the caller's own connection only; the object stays usable, other clients are undisturbed
    if r < 0.32:
        # another handle on the directory is opened (and closed again) while the other clients work - a restarted worker,
        # Django's per-request close() and reopen; it reads the settings and changes nothing
        return {'op': 'open_settings'}
    k = rng.choice(keys)
    name = rng.choice(('set', 'set', 'setitem', 'add', 'add', 'get', 'get', 'getitem', 'pop', 'delete', 'delitem',
                       'touch', 'contains', 'len', 'iter', 'read'))
    if name in ('set', 'setitem', 'add'):
        op = {'op': name, 'k': k, 'v': uniq_value(rng, ci, j, big_n)}
        if name != 'setitem' and rng.random() < 0.4:
            op['retry'] = True
        if name != 'setitem' and rng.random() < 0.35:
            op['tag'] = 'tag-c%d-%d' % (ci, j)      # unique, so a reader's (value, tag) pair is attributable to one write
        return op
    if name == 'get':
        op = {'op': 'get', 'k': k}
        if rng.random() < 0.3:
            op['default'] = 'dflt'
        if rng.random() < 0.35:
            op['tag'] = True
        return op
    if name == 'pop':
        op = {'op': 'pop', 'k': k}
        if rng.random() < 0.3:
            op['default'] = 'dflt'
        return op
    if name in ('len', 'iter'):
        return {'op': name}
    return {'op': name, 'k': k}


def model_apply(state, op):
    if op['op'] in ('iter',):
        return state, None
    if op['op'] == 'peekitem':
        if not state:
            return state, ('exc', 'KeyError')
        ((_, cur),) = state     # one key only (the expired-end scenario)
        return state, ('ok', 't(%s,%s)' % (op['kfp'], kvmodel._v(cur)))
    return kvmodel.apply(state, op)


def prefill_state(prefill, keys):
    """Model state of the prefilled rows among `keys` (key 10000+i holds i, tagged 'old')."""
    items = []
    if prefill['bulk'] == 'expire':
        return frozenset()      # the prefilled rows have expired before the clients start: no accessor sees them
    for k in keys:
        if isinstance(k, int) and 10000 <= k < 10000 + prefill['n']:
            items.append((kvmodel.kid(k), fp(k - 10000) + kvmodel.SEP + fp('old')))
    return frozenset(items)


def check_history(history, violations, probes, prefill=None):
    ops = [h for h in history if h['op']['op'] not in ('iter', 'reversed', 'iterkeys', 'iter_mixed')]
    for h in ops:
        if h['op']['op'] == 'open_settings':
            h['anyres'] = True      # its result (the stored settings) is no part of the key-value state
    init = frozenset()
    if prefill:
        keys = []
        for h in ops:
            if 'k' in h['op'] and h['op']['k'] not in keys:
                keys.append(h['op']['k'])
        ops = [h for h in ops if h['op']['op'] != 'len']
        ops = lin.expand_bulk_removals(ops, keys, lambda op: None if op['op'] == 'clear' else 'old')
        init = prefill_state(prefill, keys)
        probes['bulk_removal_races'] = 1
    # an operation that raised Timeout must have had no effect: it may be dropped
    timeouts = [h for h in ops if h['res'] and h['res'][0] == 'exc' and h['res'][1] == 'Timeout']
    ops = [h for h in ops if h not in timeouts]
    # read of an inline value fails with a documented KeyError-free error; model 'read' only for bytes in files
    bulk_steps = [h for h in ops if h['op']['op'] == 'remove_if_tag']
    plain = [h for h in ops if h['op']['op'] != 'remove_if_tag']
    lin.mark_tolerated_misses(plain, miss=kvmodel.is_miss)
    for h in plain:
        if h['tolerate']:
            probes['tolerated_miss_candidates'] = probes.get('tolerated_miss_candidates', 0) + 1
        elif prefill and h['op']['op'] in ('get', 'getitem', 'read') and h.get('ret') is not None and kvmodel.is_miss(h):
            # ... or while the bulk removal overlapped it
            for b in bulk_steps:
                if b['inv'] < h['ret'] and h['inv'] < (lin.INF if b.get('ret') is None else b['ret']):
                    h['tolerate'] = True
                    break
    ops = plain + bulk_steps
    try:
        ok, info = lin.check(ops, init, model_apply)
    except OverflowError as exc:
        probes['lin_overflow'] = probes.get('lin_overflow', 0) + 1
        return
    probes['lin_nodes'] = probes.get('lin_nodes', 0) + info['nodes']
    if not ok:
        violations.append({'rule': 'C05/not-linearizable', 'sig': 'history',
                           'detail': 'no sequential order explains the results; stuck at %s' % (info.get('stuck_ops'),)})


def check_bulk_complete(case, out, violations):
    """A bulk removal that returned normally has removed every row that matched from its start to its end: the prefilled
    rows no client wrote to."""
    pre = case['cfg']['prefill']
    if pre['bulk'] == 'iter':
        return
    done = [h for h in out['history'] if h['op']['op'] == pre['bulk'] and h.get('ret') is not None and h['res'][0] == 'ok']
    if not done:
        return
    touched = {h['op']['k'] for h in out['history'] if 'k' in h['op'] and h['op']['op'] in ('set', 'add')}
    left = [k for k in out.get('left_prefilled', []) if k not in touched]
    if left:
        violations.append({'rule': 'C05/bulk-removal-incomplete', 'sig': pre['bulk'],
                           'detail': '%s() returned %s and left %d matching rows nobody wrote to, e.g. key %r' % (
                               pre['bulk'], done[0]['res'], len(left), left[0])})


def check_iter_prefill(case, out, violations, probes):
    """Iterations over a prefilled cache: no key twice, every prefilled key that no client ever removed or replaced is
    reported, and nothing that never existed."""
    pre = case['cfg']['prefill']
    if pre['bulk'] != 'iter':
        return
    hist = out['history']
    touched = {h['op']['k'] for h in hist if 'k' in h['op'] and h['op']['op'] in ('delete', 'pop', 'delitem', 'set', 'add', 'setitem')}
    stable = [fp(10000 + i) for i in range(pre['n']) if 10000 + i not in touched]
    known = {fp(10000 + i) for i in range(pre['n'])} | {fp(h['op']['k']) for h in hist if 'k' in h['op']} | {fp(30000)}
    for it in hist:
        if it['op']['op'] not in ('iter', 'reversed', 'iterkeys', 'iter_mixed') or it.get('ret') is None or it['res'][0] != 'ok':
            continue
        keys = json.loads(it['res'][1][5:])
        probes['iterations_over_pages'] = probes.get('iterations_over_pages', 0) + 1
        seen = set(keys)
        if len(keys) != len(seen):
            violations.append({'rule': 'C05/iteration', 'sig': 'duplicate-key', 'detail': '%d keys, %d distinct' % (len(keys), len(seen))})
            return
        missing = [k for k in stable if k not in seen]
        if missing:
            violations.append({'rule': 'C05/iteration', 'sig': 'stable-key-missing',
                               'detail': '%s() did not report %d keys that were present from start to end, e.g. %s' % (
                                   it['op']['op'], len(missing), missing[0])})
            return
        extra = [k for k in keys if k not in known]
        if extra:
            violations.append({'rule': 'C05/iteration', 'sig': 'phantom-key', 'detail': str(extra[:3])})
            return


def check_iterations(history, violations):
    creating = ('set', 'setitem', 'add', 'incr', 'decr', 'setdefault')
    removing = ('pop', 'delete', 'delitem', 'clear', 'ipop', 'popitem')
    for it in history:
        if it['op']['op'] != 'iter' or it['ret'] is None or it['res'][0] != 'ok':
            continue
        keys = json.loads(it['res'][1][5:])
        if len(keys) != len(set(keys)):
            violations.append({'rule': 'C05/iteration', 'sig': 'duplicate-key', 'detail': str(keys)})
        seen = set(keys)
        allk = {}
        for h in history:
            if 'k' in h['op']:
                allk[fp(vals.dec(h['op']['k']))] = kvmodel.kid(h['op']['k'])
        for kfp in allk:
            cre = [h for h in history if h['op'].get('op') in creating and 'k' in h['op']
                   and fp(vals.dec(h['op']['k'])) == kfp]
            rem = [h for h in history if (h['op'].get('op') in removing and
                                          ('k' not in h['op'] or fp(vals.dec(h['op']['k'])) == kfp))]
            started_before_end = [h for h in cre if h['inv'] < it['ret']]
            if not started_before_end and kfp in seen:
                violations.append({'rule': 'C05/iteration', 'sig': 'phantom-key', 'detail': kfp})
            rem_rel = [r for r in rem if r['inv'] < it['ret']]
            stable = False
            for c in cre:
                if c['ret'] is None or c['ret'] >= it['inv'] or c['res'][0] != 'ok':
                    continue
                if c['op']['op'] == 'add' and c['res'] != ('ok', 'True'):
                    continue
                if all(r['ret'] is not None and r['ret'] < c['inv'] for r in rem_rel):
                    stable = True
                    break
            if stable and kfp not in seen:
                violations.append({'rule': 'C05/iteration', 'sig': 'stable-key-missing', 'detail': kfp})


def run_xproc(case):
    """Clients that are separate operating-system processes (fresh interpreters), one after the other: every completed incr is
    seen by whoever comes next.  The check's own process keeps a connection open throughout, opens further handles on the
    directory in between, and the other processes come and go (the last connection of a process to close checkpoints)."""
    import hashlib
    from .. import xproc
    from ..world import World
    cfg = case['cfg']
    violations = []
    world = World(case['seed'], clock={'mode': 'frozen'}, yield_clock=False)
    try:
        dc = world.dc
        path = world.path('c')
        mine = dc.Cache(path)
        extra = []
        expect = 0
        log = []
        for step in cfg['steps']:
            if step == 'mine':
                got = mine.incr('n', retry=True)
                expect += 1
            elif step == 'child':
                got = xproc.run_child(path, [{'op': 'incr', 'k': 'n'}])[0]
                expect += 1
            elif step == 'open':
                extra.append(dc.Cache(path))      # another handle of this process on the same directory (a second component)
                got = extra[-1].get('n', retry=True)
            elif step == 'open_close':
                h = dc.Cache(path)
                got = h.get('n', retry=True)
                h.close()
            else:
                raise ValueError(step)
            log.append((step, got))
            if got != (expect if expect else None) and not violations:
                violations.append({'rule': 'C05/completed-update-not-seen', 'sig': 'across-os-processes',
                                   'detail': 'steps %s: %s returned %r, %d increments were completed before' % (log, step, got, expect - (step in ('mine', 'child'))) })
        final = xproc.run_child(path, [{'op': 'get', 'k': 'n'}])[0]
        if final != expect and not violations:
            violations.append({'rule': 'C05/completed-update-not-seen', 'sig': 'across-os-processes',
                               'detail': 'steps %s: a fresh process reads %r after %d completed increments' % (log, final, expect)})
        for h in extra:
            h.close()
        mine.close()
    finally:
        world.close()
    digest = hashlib.sha256(json.dumps(case['cfg'], sort_keys=True).encode()).hexdigest()
    return {'violations': violations, 'digest': digest, 'steps': len(cfg['steps']), 'switches': 0, 'fired': {}, 'probes': {'other_os_process': 1},
            'virtual_s': 0.0, 'nontrivial': True, 'outcome': {'steps': len(cfg['steps'])}}


def run_case(case):
    if case['cfg'].get('kind') == 'xproc':
        return run_xproc(case)
    probes = {}

    def inspect(world, main, targets, out):
        dc = world.dc
        # final sequential observation by a fresh handle (harness thread)
        obs = dc.Cache(main.directory)
        hist = out['history']
        keys = []
        for h in hist:
            if 'k' in h['op'] and h['op']['k'] not in keys:
                keys.append(h['op']['k'])
        sim = world.sim
        from ..ops import run_op
        for k in keys:
            op = {'op': 'get', 'k': k, 'default': 'absent'}
            rec = {'task': 'final', 'i': 0, 'op': op, 'inv': sim.stamp()}
            rec['res'] = run_op(obs, op)
            rec['ret'] = sim.stamp()
            hist.append(rec)
        op = {'op': 'len'}
        rec = {'task': 'final', 'i': 0, 'op': op, 'inv': sim.stamp()}
        rec['res'] = run_op(obs, op)
        rec['ret'] = sim.stamp()
        hist.append(rec)
        out['check'] = check_messages(obs)
        pre = case['cfg'].get('prefill')
        if pre:
            if pre['bulk'] == 'expire':
                out['left_prefilled'] = [k for k in obs.iterkeys() if isinstance(k, int) and 10000 <= k < 10000 + pre['n']
                                         and obs.get(k, expire_time=True)[1] is not None]
            else:
                out['left_prefilled'] = [k for k in obs.iterkeys() if isinstance(k, int) and 10000 <= k < 10000 + pre['n']
                                         and (pre['bulk'] == 'clear' or obs.get(k, tag=True)[1] == 'old')]
        obs.close()
        out['audit'] = audit(main.directory)

    def prepare(world, main):
        pre = case['cfg'].get('prefill')
        end = case['cfg'].get('expired_end')
        if end:
            main.set(vals.dec(end['k']), b'o' * (70000 if end['big'] else 3), expire=5)
            world.sim.advance(10)
        if not pre:
            return
        for i in range(pre['n']):
            main.set(10000 + i, i, tag='old', expire=5 if pre['bulk'] == 'expire' else None)
        if pre['bulk'] == 'expire':
            world.sim.advance(10)

    if case['cfg'].get('profile_stalls'):
        # positions of the stalls: relative to the length (in pre-emption points) each operation has in an undisturbed run
        dry = conc.run_and_inspect(dict(case, faults=[]), lambda world, main, targets, out: None, prepare=prepare)
        seams = {(h['task'], h['i']): h.get('seams') or 0 for h in dry.get('history', [])}
        faults = []
        for st in case['cfg']['profile_stalls']:
            n = seams.get((st['task'], st['op']), 0)
            if n <= 0:
                continue
            k = n - st['from_end'] if 'from_end' in st else 1 + int(st['frac'] * n)
            faults.append({'f': 'stall', 'task': st['task'], 'op': st['op'], 'k': max(1, min(n, k)), 'dur': st['dur']})
        case = dict(case, faults=faults)
        probes['profiled_stall_runs'] = 1
    out = conc.run_and_inspect(case, inspect, prepare=prepare)
    violations = out['violations']
    if conc.incident_violations(out, PROPERTY, violations):
        return {'violations': violations, 'digest': out.get('digest'), 'steps': out.get('steps', 0),
                'switches': out.get('switches', 0), 'fired': out.get('fired', {}), 'probes': out.get('probes', {}),
                'virtual_s': out.get('virtual_s', 0.0), 'picks': out.get('picks'), 'nontrivial': True}
    for name, msg in conc.unexpected_exceptions(out):
        violations.append({'rule': 'C05/unexpected-exception', 'sig': msg.split(':')[0], 'detail': '%s: %s' % (name, msg)})
    for rule, msg in out['seam_violations']:
        violations.append({'rule': 'C05/' + rule, 'sig': 'seam', 'detail': msg})
    for h in out['history']:
        r = h['res']
        if r and r[0] == 'exc' and r[1] not in ('KeyError', 'Timeout', 'TypeError'):
            violations.append({'rule': 'C05/unexpected-exception', 'sig': r[1],
                               'detail': '%s op %s -> %s' % (h['task'], h['op'], r)})
        if r and r[0] == 'exc' and r[1] == 'TypeError' and h['op']['op'] not in ('incr', 'decr'):
            violations.append({'rule': 'C05/unexpected-exception', 'sig': r[1],
                               'detail': '%s op %s -> %s' % (h['task'], h['op'], r)})
    if case['cfg'].get('timeout', 60) >= 60 and not case.get('faults'):
        # nobody holds the write lock for anything like the 60 s a caller is prepared to wait (no stall, no spurious busy
        # answer injected): a call that gives up with Timeout did not wait as configured (C14)
        for h in out['history']:
            r = h['res']
            if r and r[0] == 'exc' and r[1] == 'Timeout' and not violations:
                violations.append({'rule': 'C05/timeout-without-cause', 'sig': h['op']['op'],
                                   'detail': '%s op %s raised Timeout although the lock was never held for more than a moment (timeout %s s)'
                                             % (h['task'], json.dumps(h['op'])[:120], case['cfg'].get('timeout', 60))})
    check_history(out['history'], violations, probes, case['cfg'].get('prefill'))
    if case['cfg'].get('prefill') and not violations:
        check_bulk_complete(case, out, violations)
        check_iter_prefill(case, out, violations, probes)
    if not case['cfg'].get('prefill'):
        check_iterations(out['history'], violations)
    problems, empties, info = out['audit']
    if problems:
        violations.append({'rule': 'C05/audit', 'sig': ','.join(sorted({p[0] for p in problems})),
                           'detail': str(problems[:4])})
    bad = [m for m in out['check'] if not m.startswith('empty directory')]
    if bad:
        violations.append({'rule': 'C05/check', 'sig': ','.join(sorted({m.split(':')[0] for m in bad})),
                           'detail': str(bad[:3])})
    if case['cfg'].get('line_p'):
        probes['line_yield_runs'] = 1
    pr = dict(out['probes'])
    for k, v in probes.items():
        pr[k] = pr.get(k, 0) + v
    pr['tolerated_miss'] = sum(1 for h in out['history'] if h.get('tolerate'))
    # lookups that returned a value kept in a file (long values under the small thresholds this check uses)
    pr['file_backed_read'] = sum(1 for h in out['history'] if h['op'].get('op') in ('get', 'getitem', 'read', 'pop') and h.get('res')
                                 and h['res'][0] == 'ok' and isinstance(h['res'][1], str) and h['res'][1][:1] in ('B', 'S'))
    return {'violations': violations, 'digest': out['digest'], 'steps': out['steps'], 'switches': out['switches'],
            'fired': out['fired'], 'probes': pr, 'virtual_s': out['virtual_s'], 'picks': out['picks'],
            'nontrivial': out['switches'] > 0,
            'outcome': {'ops': len(out['history']), 'final': [h['res'] for h in out['history'] if h['task'] == 'final']}}

TECHNIQUE = 'deterministic simulation: seeded schedule search over real threads under a baton + linearizability check against a sequential model'
LEVEL_TEXT = ('seeded exploration of interleavings (no enumeration): every run is one exactly replayable schedule of 2-4 real '
              'clients over real SQLite and files; histories are decided by a Wing-Gong linearizability search against a '
              'key-value model with the single anomaly C05 tolerates. Right level because the property quantifies over '
              'schedules, which only a controlled scheduler can sample and replay.')
LEVEL_NOTE = ('trusted: SQLite statement atomicity and locking, tmpfs semantics, the simulator kernel; separate processes are '
              'simulated as separate connection sets with distinct pids in one OS process; pre-emption at seam calls (and '
              'sampled source lines for shared objects)')
