"""Self-tests of the machinery (DESIGN.md section 11).

  ./vcheck selftest determinism [N]   same seed twice in-process, in a fresh interpreter, and under another
                                      PYTHONHASHSEED: event-log digests / outcome digests must agree
  ./vcheck selftest mutants [ids..]   apply each patch under /verif/mutants to a scratch copy of /repo/diskcache,
                                      run the targeted check and expect a VIOLATION
"""
import glob
import hashlib
import json
import os
import shutil
import subprocess
import sys
import tempfile
import time

from . import runner

VERIF = runner.VERIF
IDS = ['C01', 'C03', 'C04', 'C05', 'C06', 'C07', 'C08', 'C09', 'C10', 'C11', 'C12', 'C13', 'C14', 'C15', 'C16', 'C17', 'C18', 'C19', 'C20']


def outcome_digest(res):
    doc = {'v': [(v['rule'], v['sig']) for v in res.get('violations', ())], 'o': res.get('outcome'), 'f': res.get('fired'),
           'n': res.get('nontrivial')}
    return hashlib.sha256(json.dumps(doc, sort_keys=True, default=str).encode()).hexdigest()[:16]


def digests(pid, n):
    mod = runner.check_module(pid)
    out = []
    for seed in range(n):
        if hasattr(mod, 'run_seed'):
            results = mod.run_seed(seed, 'quick')
        else:
            case = mod.gen_case(seed, 'quick')
            results = [mod.run_case(case)]
        out.append([[(r.get('digest') or '')[:16], outcome_digest(r)] for r in results])
    return out


def determinism(n):
    bad = 0
    for pid in IDS:
        t0 = time.time()
        a = digests(pid, n)
        b = digests(pid, n)
        same_proc = a == b
        outs = {}
        for hs in ('0', '77'):
            env = dict(os.environ, PYTHONHASHSEED=hs, DISKCACHE_VERIF='1')
            p = subprocess.run(['/venv/bin/python', '-B', '-c',
                                'import sys, json; sys.path.insert(0, %r); from simdc import selftest; print(json.dumps(selftest.digests(%r, %d)))'
                                % (VERIF, pid, n)], env=env, capture_output=True, text=True, timeout=1200)
            if p.returncode != 0:
                print('HARNESS-ERROR selftest child failed for %s: %s' % (pid, p.stderr[-400:]))
                bad += 1
                outs[hs] = None
                continue
            outs[hs] = json.loads(p.stdout)
        fresh_same = outs['0'] == a
        other_hash_outcome = outs['77'] is not None and [[x[1] for x in s] for s in outs['77']] == [[x[1] for x in s] for s in a]
        other_hash_raw = outs['77'] == a
        runs = sum(len(s) for s in a)
        ok = same_proc and fresh_same and other_hash_outcome
        print('%s determinism: %d seeds / %d runs: same-process %s, fresh interpreter %s, other PYTHONHASHSEED outcome %s (raw event log %s)  [%.1fs]'
              % (pid, n, runs, same_proc, fresh_same, other_hash_outcome, other_hash_raw, time.time() - t0))
        if not ok:
            bad += 1
    print('determinism self-test: %s' % ('OK' if not bad else '%d checks differ' % bad))
    return 0 if not bad else 2


def mutants(only):
    patches = sorted(glob.glob(os.path.join(VERIF, 'mutants', '*.patch')))
    base = '/dev/shm' if os.path.isdir('/dev/shm') else None
    missed = 0
    rows = []
    for patch in patches:
        name = os.path.basename(patch)[:-6]
        head = open(patch).read().splitlines()[:5]
        props = []
        for line in head:
            if line.startswith('# property:'):
                props = line.split(':', 1)[1].split()
        if only and not (set(only) & set(props)) and name not in only:
            continue
        root = tempfile.mkdtemp(prefix='simdc-mut-', dir=base)
        try:
            shutil.copytree('/repo/diskcache', os.path.join(root, 'diskcache'))
            p = subprocess.run(['patch', '-p1', '-s', '-d', root, '-i', patch], capture_output=True, text=True)
            if p.returncode != 0:
                print('mutant %s: patch does not apply: %s' % (name, (p.stdout + p.stderr)[-300:]))
                rows.append((name, props, 'STALE'))
                missed += 1
                continue
            caught = []
            for pid in props:
                env = dict(os.environ, DISKCACHE_SRC=root, VERIF_BUDGET_S=os.environ.get('VERIF_MUTANT_BUDGET_S', '45'), VERIF_SHRINK_S='10')
                t0 = time.time()
                q = subprocess.run([os.path.join(VERIF, 'vcheck'), 'check', pid, '--tier', 'quick'], env=env, capture_output=True, text=True, timeout=1800)
                hit = q.returncode == 1 and 'VIOLATION property=%s' % pid in q.stdout
                rule = ''
                for line in q.stdout.splitlines():
                    if line.strip().startswith('rule:'):
                        rule = line.strip()[5:].strip()
                caught.append((pid, hit, rule, time.time() - t0, q.returncode))
            ok = any(c[1] for c in caught)
            if not ok:
                missed += 1
            rows.append((name, props, 'caught' if ok else 'MISSED'))
            for pid, hit, rule, dt, rc in caught:
                print('mutant %-38s %s: %s %s (exit %d, %.0fs)' % (name, pid, 'caught' if hit else 'missed', rule, rc, dt))
        finally:
            shutil.rmtree(root, ignore_errors=True)
    # evidence written by the mutant runs belongs to the mutants: restore nothing here; callers re-run checks afterwards
    print('mutants: %d of %d caught' % (len(rows) - missed, len(rows)))
    return 0 if not missed else 1


def main(argv):
    if not argv:
        print(__doc__)
        return 2
    if argv[0] == 'determinism':
        return determinism(int(argv[1]) if len(argv) > 1 else 6)
    if argv[0] == 'mutants':
        return mutants(argv[1:])
    print(__doc__)
    return 2
