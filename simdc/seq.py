"""Single-client driver: runs a program against the real object under the
virtual clock (frozen within an operation, advanced between operations) and
compares every result and the physical row set with a reference model."""
import json
import pickle
import sqlite3
import zlib

from . import vals
from .kernel import SimIncident
from .ops import run_op, fp
from .world import World


class RawView:
    """Auditor connection: reads the Cache table behind the library's back."""

    def __init__(self, directory, timeout=5):
        self.con = sqlite3.connect(directory + '/cache.db', timeout=timeout, isolation_level=None)

    def rowids(self):
        return [r[0] for r in self.con.execute('SELECT rowid FROM Cache ORDER BY rowid').fetchall()]

    def rows(self):
        return self.con.execute('SELECT rowid, key, raw, store_time, expire_time, access_time, access_count, tag, size,'
                                ' mode, filename FROM Cache ORDER BY rowid').fetchall()

    def meta(self):
        """rowid -> (store_time, access_time, access_count): the columns the eviction policies order by."""
        return {r[0]: r[1:] for r in self.con.execute('SELECT rowid, store_time, access_time, access_count FROM Cache').fetchall()}

    def sizes(self):
        return dict(self.con.execute('SELECT rowid, size FROM Cache').fetchall())

    def settings(self):
        return dict(self.con.execute('SELECT key, value FROM Settings').fetchall())

    def close(self):
        self.con.close()


def key_class(key):
    t = type(key)
    if t in (int, float) and not (t is int and not -2 ** 63 <= key < 2 ** 63):
        return 0
    if t is str:
        return 1
    return 2


def check_sorted_keys(fwd, rev, model_keys, violations, pid, order=True):
    """fwd/rev: lists of key fingerprints from iterkeys(); model_keys: python keys.
    order=False (a Disk that stores keys in an encoding of its own, JSONDisk): the keys handed out are the stored keys and the
    reverse iteration is the reverse; their order is that of the encoded form and is not judged."""
    want = sorted(fp(k) for k in model_keys)
    if sorted(fwd) != want:
        violations.append({'rule': '%s/iterkeys-contents' % pid, 'sig': 'multiset',
                           'detail': 'iterkeys yielded %d keys, model has %d' % (len(fwd), len(want))})
        return
    if rev is not None and list(reversed(rev)) != fwd:
        violations.append({'rule': '%s/iterkeys-reverse' % pid, 'sig': 'order',
                           'detail': 'reverse iteration is not the reverse of forward iteration'})
    if not order:
        return
    by_fp = {fp(k): k for k in model_keys}
    seq = [by_fp[f] for f in fwd]
    classes = [key_class(k) for k in seq]
    if classes != sorted(classes):
        violations.append({'rule': '%s/iterkeys-order' % pid, 'sig': 'type-classes',
                           'detail': 'numbers < text < bytes order violated: %s' % classes[:20]})
        return
    nums = [k for k in seq if key_class(k) == 0]
    if any(a > b for a, b in zip(nums, nums[1:])):
        violations.append({'rule': '%s/iterkeys-order' % pid, 'sig': 'numbers', 'detail': str(nums[:10])})
    texts = [k.encode('utf-8', 'surrogatepass') for k in seq if key_class(k) == 1]
    if any(a > b for a, b in zip(texts, texts[1:])):
        violations.append({'rule': '%s/iterkeys-order' % pid, 'sig': 'text', 'detail': str(texts[:10])})
    bts = [k for k in seq if type(k) is bytes]
    if any(a > b for a, b in zip(bts, bts[1:])):
        violations.append({'rule': '%s/iterkeys-order' % pid, 'sig': 'bytes', 'detail': str(bts[:10])})
