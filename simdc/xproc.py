"""Operations carried out by ANOTHER OPERATING-SYSTEM PROCESS: a fresh interpreter that imports the library under test plainly
(no seams), with its clock patched to a given reading.  What simulated processes cannot show - state kept in module globals,
locks kept by the kernel per process - shows between the check's process and such a child.  Strictly sequential (the parent
waits for the child to exit), so the runs stay deterministic."""
import json
import os
import subprocess
import sys

CHILD = r'''
import json, sys
req = json.load(sys.stdin)
sys.path.insert(0, req['src'])
import diskcache
from diskcache import core
if req.get('clock') is not None:
    class _Clock:
        @staticmethod
        def time():
            return req['clock']
        @staticmethod
        def sleep(dt):
            req['clock'] += dt
        def __getattr__(self, name):
            import time
            return getattr(time, name)
    core.time = _Clock()
cache = diskcache.Cache(req['directory'], **req.get('settings', {}))
out = []
for op in req['ops']:
    name = op['op']
    try:
        if name == 'set':
            v = op['v']
            if isinstance(v, dict) and 'bytes' in v:
                v = b'x' * v['bytes']
            out.append(cache.set(op['k'], v, expire=op.get('expire'), tag=op.get('tag'), retry=True))
        elif name == 'incr':
            out.append(cache.incr(op['k'], retry=True))
        elif name == 'touch':
            out.append(cache.touch(op['k'], expire=op.get('expire'), retry=True))
        elif name == 'get':
            out.append(cache.get(op['k']))
        elif name == 'expire':
            out.append(cache.expire(retry=True))
        elif name == 'len':
            out.append(len(cache))
        else:
            raise ValueError(name)
    except Exception as exc:
        out.append('%s: %s' % (type(exc).__name__, exc))
cache.close()
json.dump(out, sys.stdout)
'''


def run_child(directory, ops, clock=None, settings=None):
    src = os.environ.get('DISKCACHE_SRC', '/repo')
    req = {'src': src, 'directory': directory, 'ops': ops, 'clock': clock, 'settings': settings or {}}
    env = dict(os.environ, PYTHONHASHSEED='0', PYTHONDONTWRITEBYTECODE='1')
    p = subprocess.run([sys.executable, '-B', '-c', CHILD], input=json.dumps(req), capture_output=True, text=True, env=env, timeout=120)
    if p.returncode != 0 or not p.stdout.strip():
        raise RuntimeError('child process failed: %s' % (p.stderr or p.stdout)[-600:])
    return json.loads(p.stdout)
