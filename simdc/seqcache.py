"""Single-client Cache histories against ModelCache (used by C03, C04, C09,
C18): generation of programs over an alias-prone alphabet and the step-by-step
comparison (results, physical row set, lazy-cull legality)."""
import json
import random

from . import vals
from .audit import audit, check_messages
from .models import ModelCache
from .ops import run_op, fp
from .seq import RawView, check_sorted_keys
from .world import World

KEYS = ['a', 'b', 'ab', {'b': '61'}, 1, {'f': '1.0'}, {'f': '2.5'}, 0, {'f': '-0.0'}, {'i': str(2 ** 63 - 1)},
        {'i': str(2 ** 63)}, None, True, {'t': [1, 'x']}, {'pkl': [{'t': [1, 'x']}, 5]}, '', {'b': ''}, 'é ',
        'a\x00b', 'a\x00', {'b': '6100'}, 'k' * 3000, {'i': str(-2 ** 63)}, {'f': '1e300'}, -1,
        # one text in two Unicode spellings (composed / decomposed), and a compatibility character: different keys
        'caf\u00e9', 'cafe\u0301', '\u212b', '\u00c5']
SMALL_VALUES = [0, 1, -7, {'f': '1.5'}, {'f': '-0.0'}, {'f': 'inf'}, 'v', 'text\r\nline', {'b': '0001ff'}, None, True,
                {'t': [1, None, 'x']}, {'l': [1, 2, 3]}, {'d': [['k', 1]]}, {'i': str(2 ** 70)}, '',
                {'sub': ['str', 'red']}, {'sub': ['bytes', {'b': '00ff'}]}, {'sub': ['int', 7]}, {'sub': ['float', {'f': '1.5'}]}]
TAGS = [None, None, 't1', 't2', {'b': '7431'}, 3, 0, '',
        # tags that are prefixes of one another, with the separators people use for hierarchies: different tags all the same
        't1:a', 't1:a:b', 't1/a', 't1.a', 't1%', 't1_']
TTLS = [None, None, None, 0, -1, 1e-9, 1, 5, 60, 1e12, -1e12]


def gen_settings(rng, profile):
    s = {
        'eviction_policy': rng.choice(('least-recently-stored', 'least-recently-used', 'least-frequently-used', 'none')),
        'cull_limit': rng.choice((0, 1, 2, 10, 10)),
        'statistics': rng.choice((0, 1)),
        'tag_index': rng.choice((0, 1)),
        'disk_min_file_size': rng.choice((0, 1, 8, 64, 2 ** 15)),
        'size_limit': 2 ** 40,
    }
    if rng.random() < 0.3:
        s['disk_pickle_protocol'] = rng.choice((0, 1, 2, 3, 4, 5))
    return s


def gen_value(rng, i, mfs):
    r = rng.random()
    if r < 0.6:
        return rng.choice(SMALL_VALUES)
    if r < 0.75:
        return rng.randrange(-50, 50)
    n = rng.choice((max(1, mfs - 1), mfs, mfs + 1, mfs + 20)) if mfs < 2 ** 15 else rng.choice((100, mfs, mfs + 1))
    n = max(1, min(n, 2 ** 15 + 64))
    return {'big': [rng.choice(('bytes', 'str', 'crstr', 'pickle')), n, 'v%d' % i]}


def gen_prog(rng, n_ops, profile, mfs):
    keys = rng.sample(KEYS, rng.randint(2, 7))
    prog = []
    ttls = TTLS if profile != 'nottl' else [None]
    exp_heavy = profile == 'expiry'
    i = 0
    while len(prog) < n_ops:
        i += 1
        r = rng.random()
        k = rng.choice(keys)
        ttl = rng.choice(ttls)
        if exp_heavy and rng.random() < 0.5:
            ttl = rng.choice((0, 1e-9, 1, 5, 5, -1))
        if r < 0.20:
            op = {'op': rng.choice(('set', 'set', 'set', 'setitem')), 'k': k, 'v': gen_value(rng, i, mfs)}
            if op['op'] == 'set':
                if ttl is not None:
                    op['expire'] = ttl
                tag = rng.choice(TAGS)
                if tag is not None:
                    op['tag'] = tag
                if rng.random() < 0.08:
                    op['read'] = True
                    op['v'] = {'big': ['bytes', rng.choice((1, 10, 100)), 's%d' % i]}
        elif r < 0.27:
            op = {'op': 'add', 'k': k, 'v': gen_value(rng, i, mfs)}
            if ttl is not None:
                op['expire'] = ttl
            tag = rng.choice(TAGS)
            if tag is not None:
                op['tag'] = tag
        elif r < 0.40:
            op = {'op': 'get', 'k': k}
            if rng.random() < 0.3:
                op['default'] = 'dflt'
            if rng.random() < 0.3:
                op['expire_time'] = True
            if rng.random() < 0.3:
                op['tag'] = True
        elif r < 0.44:
            op = {'op': rng.choice(('getitem', 'read')), 'k': k}
        elif r < 0.49:
            op = {'op': 'contains', 'k': k}
        elif r < 0.54:
            op = {'op': 'touch', 'k': k}
            if ttl is not None:
                op['expire'] = ttl
        elif r < 0.62:
            op = {'op': rng.choice(('incr', 'incr', 'decr')), 'k': k, 'delta': rng.choice((1, 2, -3, 10, 1, 2, -3, 10, 0, 2 ** 62, -2 ** 62, 0.5))}
            if rng.random() < 0.25:
                op['default'] = None
            elif rng.random() < 0.3:
                op['default'] = rng.choice((5, 100))
        elif r < 0.67:
            op = {'op': 'pop', 'k': k}
            if rng.random() < 0.3:
                op['default'] = 'dflt'
            if rng.random() < 0.3:
                op['expire_time'] = True
            if rng.random() < 0.3:
                op['tag'] = True
        elif r < 0.72:
            op = {'op': rng.choice(('delete', 'delete', 'delitem')), 'k': k}
        elif r < 0.73:
            op = {'op': 'clear'}
        elif r < 0.76:
            op = {'op': 'evict', 'tag': rng.choice(('t1', 't1', 't2', 'nope', 0, '', 3, {'b': '7431'}, 't1:a', 't1%'))}
            if rng.random() < 0.3:
                op['retry'] = True
        elif r < 0.80:
            op = {'op': 'expire'}
            if rng.random() < 0.25:
                # expire(now=...): purging ahead of (or behind) the clock.  (Shifts that cannot cancel a clock reading exactly: the
                # library takes now=0.0 for "not given", a reading of the year 1970 that no history here is meant to produce.)
                op['now_shift'] = rng.choice((100.7, 3.3, 1e6 + 0.7, -2.2))
            if rng.random() < 0.3:
                op['retry'] = True      # how a call is spelled (retry flag given or not) changes nothing for a single client
        elif r < 0.82:
            op = {'op': 'cull'}
            if rng.random() < 0.4:
                op['retry'] = True
        elif r < 0.85:
            op = {'op': 'len'}
        elif r < 0.88:
            op = {'op': rng.choice(('iter', 'reversed', 'iterkeys'))}
        elif r < 0.91:
            op = {'op': 'peekitem', 'last': rng.random() < 0.5}
            if rng.random() < 0.3:
                op['expire_time'] = True
            if rng.random() < 0.3:
                op['tag'] = True
        elif r < 0.93:
            op = {'op': 'stats', 'enable': rng.random() < 0.7, 'reset': rng.random() < 0.3}
        elif r < 0.935 and profile != 'nolife':
            op = {'op': 'reopen'}
        elif r < 0.95 and len(prog) < n_ops - 5:
            # bulk: cross the 100-row page of iteration and bulk removal
            n = rng.choice((101, 150, 230))
            base = 1000 * i
            ttl2 = rng.choice((None, 1, 5, 5)) if profile != 'nottl' else None
            tag2 = rng.choice((None, 't1'))
            for j in range(n):
                op = {'op': 'set', 'k': base + j, 'v': j}
                if ttl2 is not None:
                    op['expire'] = ttl2
                if tag2 is not None:
                    op['tag'] = tag2
                prog.append(op)
            continue
        elif r < 0.97 and profile == 'expiry':
            q = rng.random()
            prefix = rng.choice(('q', 'q-5', 'r'))
            if q < 0.45:
                op = {'op': 'push', 'v': gen_value(rng, i, mfs), 'prefix': prefix, 'side': rng.choice(('back', 'front'))}
                if ttl is not None:
                    op['expire'] = ttl
            else:
                op = {'op': rng.choice(('pull', 'peek')), 'prefix': prefix, 'side': rng.choice(('back', 'front'))}
                if rng.random() < 0.3:
                    op['expire_time'] = True
        else:
            # the wall clock may also be set BACK (an NTP step, a manual correction); every call goes by the clock as it reads then
            op = {'op': 'advance', 'dt': rng.choice((0, 1e-9, 0.5, 1, 1, 4, 5, 6, 60, 1e6, -0.5, -3, -30))}
        prog.append(op)
    return prog


BLOCK_OPS = ('set', 'setitem', 'add', 'get', 'getitem', 'contains', 'touch', 'incr', 'decr', 'pop', 'delete', 'delitem', 'advance')


def add_blocks(rng, prog, p=0.25):
    """Wrap runs of 2-5 simple operations (clock steps included) into transact() blocks: time passes INSIDE a block, every
    call in it still sees the clock as it is at that call."""
    out = []
    i = 0
    while i < len(prog):
        n = rng.randint(2, 5)
        run = prog[i:i + n]
        if rng.random() < p and len(run) >= 2 and all(o['op'] in BLOCK_OPS and not o.get('read') for o in run) \
                and any(o['op'] != 'advance' for o in run):
            out.append({'op': 'block', 'body': run})
            i += len(run)
        else:
            out.append(prog[i])
            i += 1
    return out


def open_cache(dc, path, settings, disk=None):
    kw = {}
    if disk == 'json':
        kw['disk'] = dc.JSONDisk
    return dc.Cache(path, **kw, **settings)


def run_prog(case, pid, at_limit_fn=None, on_step=None):
    """Execute case['prog'] on a Cache and compare with ModelCache."""
    cfg = case['cfg']
    settings = dict(cfg['settings'])
    violations = []
    stats = {'ops': 0, 'probes': {}}
    world = World(case['seed'], clock={'mode': 'frozen', 'epoch': cfg.get('epoch', 1600000000.0)}, yield_clock=False)
    sim = world.sim
    if cfg.get('var_limit'):
        sim.var_limit = cfg['var_limit']      # an SQLite built with the old limit of 999 parameters per statement
    probes = stats['probes']
    try:
        dc = world.dc
        path = world.path('c')
        sibling = None
        dirname_ok = True
        if cfg.get('dirname'):
            import sys as _sys
            try:
                ''.join(cfg['dirname']).encode(_sys.getfilesystemencoding())
            except UnicodeEncodeError:
                dirname_ok = False      # this interpreter (C locale, no UTF-8 mode) cannot name such a directory at all
        if cfg.get('dirname') and dirname_ok:
            # a directory name with characters that mean something in URIs, patterns or shells, next to a directory whose name is
            # the same up to such a character: two directories, two caches
            path = world.path(cfg['dirname'][0])
            sibling = open_cache(dc, world.path(cfg['dirname'][1]), {}, cfg.get('disk'))
            sibling.set('sibling', cfg['dirname'][1])
            probes['odd_directory_name'] = 1
        cache = open_cache(dc, path, settings, cfg.get('disk'))
        skews = cfg.get('skews') or [0.0]
        handles = [cache] + [open_cache(dc, path, {}, cfg.get('disk')) for _ in skews[1:]]
        raw = RawView(path)
        try:
            raw.rowids()
        except Exception as exc:  # noqa
            # the cache is open and <directory>/cache.db holds no cache: its database lives somewhere else
            violations.append({'rule': '%s/database-not-in-directory' % pid, 'sig': type(exc).__name__,
                               'detail': 'after Cache(%r): %s/cache.db: %s' % (path, path, str(exc)[:100])})
            raw.close()
            for h in handles:
                h.close()
            if sibling is not None:
                sibling.close()
            return violations, stats
        model = ModelCache(policy=settings.get('eviction_policy', 'least-recently-stored'),
                           cull_limit=settings.get('cull_limit', 10), statistics=settings.get('statistics', 0),
                           size_limit=settings.get('size_limit', 2 ** 30))
        for idx, op in enumerate(case['prog']):
            name = op['op']
            if name == 'advance':
                sim.advance(op['dt'])
                continue
            if name == 'reopen':
                handles[0].close()
                handles[0] = open_cache(dc, path, {}, cfg.get('disk'))
                probes['reopen'] = probes.get('reopen', 0) + 1
                continue
            pi = op.get('proc', 0) % len(skews)
            sim.harness_proc.skew = skews[pi]
            sim.harness_proc.pid = 1 + pi
            cache = handles[pi]
            now = sim.now + skews[pi]
            stats['ops'] += 1
            if name == 'block':
                # a transact() block in which the clock moves: each call is compared with the model at its own instant; the
                # physical rows are compared once the block has committed (generated only where no write culls lazily)
                probes['blocks'] = probes.get('blocks', 0) + 1
                with cache.transact():
                    for sub in op['body']:
                        if sub['op'] == 'advance':
                            sim.advance(sub['dt'])
                            continue
                        now = sim.now + skews[pi]
                        got = run_op(cache, sub, {'stream_rng': sim.rng_os})
                        want = model.do(sub, now)
                        if want is not None and tuple(got) != tuple(want):
                            violations.append({'rule': '%s/result' % pid, 'sig': 'block:' + sub['op'],
                                               'detail': 'op #%d, inside a block, %s at t=%r: got %s, model %s' % (
                                                   idx, json.dumps(sub)[:120], now, got, want)})
                            break
                if violations:
                    break
                model.pending = None
                model.reconcile(raw.rowids(), now, violations, pid, at_limit=None)
                if not violations:
                    compare_meta(model, raw, violations, pid)
                if violations:
                    violations[-1]['detail'] = 'after block op #%d: %s' % (idx, violations[-1]['detail'])
                    break
                continue
            if name == 'iterkeys':
                r1 = run_op(cache, {'op': 'iterkeys'})
                r2 = run_op(cache, {'op': 'iterkeys', 'reverse': True})
                if r1[0] != 'ok' or r2[0] != 'ok':
                    violations.append({'rule': '%s/result' % pid, 'sig': 'iterkeys', 'detail': '%s %s' % (r1, r2)})
                else:
                    check_sorted_keys(json.loads(r1[1][5:]), json.loads(r2[1][5:]),
                                      [it.key for it in model.rows.values()], violations, pid, order=cfg.get('disk') != 'json')
                if violations:
                    break
                continue
            before = at_limit_fn(cache, model, op) if at_limit_fn else None
            if name == 'cull':
                vol_before = cache.volume()
                got = run_op(cache, op)
                want_exp = model.op_expire(op, now)
                check_cull(cache, model, raw, got, want_exp, vol_before, violations, pid, probes)
                if violations:
                    violations[-1]['detail'] = 'after op #%d cull: %s' % (idx, violations[-1]['detail'])
                    break
                continue
            got = run_op(cache, op, {'stream_rng': sim.rng_os})
            want = model.do(op, now)
            if want is not None and tuple(got) != tuple(want):
                violations.append({'rule': '%s/result' % pid, 'sig': name,
                                   'detail': 'op #%d %s at t=%r: got %s, model %s' % (idx, json.dumps(op)[:120], now, got, want)})
                break
            model.reconcile(raw.rowids(), now, violations, pid, at_limit=before)
            if at_limit_fn is not None:
                for rid, size in raw.sizes().items():
                    it = model.rows.get(rid)
                    if it is not None:
                        it.size = size
            if not violations:
                compare_meta(model, raw, violations, pid)
            if model.culled_expired:
                probes['cull_expired'] = model.culled_expired
            if len(model.rows) > 100:
                probes['page_boundary_crossed'] = 1
            if on_step is not None:
                on_step(cache, model, op, got, violations)
            if violations:
                violations[-1]['detail'] = 'after op #%d %s: %s' % (idx, json.dumps(op)[:100], violations[-1]['detail'])
                break
        sim.harness_proc.skew = 0.0
        sim.harness_proc.pid = 1
        if not violations:
            final_compare(handles[0], model, raw, sim.now, violations, pid)
        if sibling is not None:
            left = sorted((fp(k), fp(sibling[k])) for k in sibling)
            if left != [(fp('sibling'), fp(cfg['dirname'][1]))] and not violations:
                violations.append({'rule': '%s/neighbouring-directory-affected' % pid, 'sig': 'directory-name',
                                   'detail': 'the cache in %r holds %s after work on the cache in %r' % (cfg['dirname'][1], left[:5], cfg['dirname'][0])})
            sibling.close()
        raw.close()
        for h in handles:
            h.close()
        stats['virtual_s'] = sim.now - sim._t0
    finally:
        world.close()
    return violations, stats


def compare_meta(model, raw, violations, pid):
    """The columns that decide who is evicted next, row by row: store_time for every policy, access_time under
    least-recently-used, access_count under least-frequently-used (the other two stay as written)."""
    for rid, (store, access, count) in raw.meta().items():
        it = model.rows.get(rid)
        if it is None:
            continue
        bad = None
        if store != it.store:
            bad = ('store_time', store, it.store)
        elif model.policy == 'least-recently-used' and access != it.access:
            bad = ('access_time', access, it.access)
        elif model.policy == 'least-frequently-used' and count != it.count:
            bad = ('access_count', count, it.count)
        if bad:
            violations.append({'rule': '%s/policy-metadata' % pid, 'sig': '%s:%s' % (bad[0], model.policy),
                               'detail': 'key %s: %s is %r, the policy rule gives %r' % (fp(it.key), bad[0], bad[1], bad[2])})
            return


def check_cull(cache, model, raw, got, want_exp, vol_before, violations, pid, probes):
    """Explicit cull(): expired items first (exact), then policy eviction until
    volume() <= size_limit or the cache is empty; returns the number removed."""
    obs = set(raw.rowids())
    have = set(model.rows)
    extra = obs - have
    if extra:
        violations.append({'rule': '%s/unexplained-row' % pid, 'sig': 'extra', 'detail': str(sorted(extra)[:5])})
        return
    evicted = [model.rows[r] for r in sorted(have - obs)]
    n_exp = int(want_exp[1][2:])
    if got[0] != 'ok':
        violations.append({'rule': '%s/result' % pid, 'sig': 'cull', 'detail': 'cull() -> %s' % (got,)})
        return
    n_got = int(got[1][2:])
    if n_got != n_exp + len(evicted):
        violations.append({'rule': '%s/cull-return-value' % pid, 'sig': 'policy=%s' % model.policy,
                           'detail': 'cull() returned %d but removed %d expired + %d evicted items' % (n_got, n_exp, len(evicted))})
    if evicted:
        probes['cull_policy'] = probes.get('cull_policy', 0) + len(evicted)
        if model.policy == 'none':
            violations.append({'rule': '%s/policy-none-evicted' % pid, 'sig': 'cull', 'detail': str([fp(i.key) for i in evicted][:5])})
        elif vol_before <= model.size_limit:
            violations.append({'rule': '%s/evicted-below-size-limit' % pid, 'sig': 'cull:policy=%s' % model.policy,
                               'detail': 'cull() evicted %d live items although volume()=%d <= size_limit=%d' % (
                                   len(evicted), vol_before, model.size_limit)})
        else:
            model._check_policy_order(evicted, [], violations, pid)
        for it in evicted:
            model._delete(it)
        model.evictions += len(evicted)
    if model.policy != 'none':
        vol_after = cache.volume()
        if vol_after > model.size_limit and len(model.rows) > 0:
            violations.append({'rule': '%s/cull-incomplete' % pid, 'sig': 'policy=%s' % model.policy,
                               'detail': 'after cull(): volume()=%d > size_limit=%d with %d items left' % (
                                   vol_after, model.size_limit, len(model.rows))})


def final_compare(cache, model, raw, now, violations, pid):
    """Full comparison at the end: keys in order, values, expiry, tags, counters, audit."""
    got_keys = [fp(k) for k in cache]
    want_keys = [fp(it.key) for it in model.sorted_items()]
    if got_keys != want_keys:
        violations.append({'rule': '%s/final-contents' % pid, 'sig': 'keys',
                           'detail': 'iteration %s != model %s' % (got_keys[:8], want_keys[:8])})
        return
    if len(cache) != len(want_keys):
        violations.append({'rule': '%s/final-contents' % pid, 'sig': 'len', 'detail': '%d != %d' % (len(cache), len(want_keys))})
    for it in model.sorted_items():
        if not it.live(now):
            continue
        got = cache.get(it.key, default='<absent>', expire_time=True, tag=True)
        want = 't(%s,%s,%s)' % (it.vfp, fp(it.expire), fp(it.tag))
        # reading must not disturb the model's policy metadata for the comparison: mirror it
        if model.statistics:
            model.hits += 1
        if model.policy == 'least-recently-used':
            it.access = now
        elif model.policy == 'least-frequently-used':
            it.count += 1
        if fp(got) != want:
            violations.append({'rule': '%s/final-contents' % pid, 'sig': 'value',
                               'detail': 'key %s: got %s, model %s' % (fp(it.key), fp(got), want)})
            return
    problems, empties, info = audit(cache.directory)
    if problems:
        violations.append({'rule': '%s/audit' % pid, 'sig': ','.join(sorted({p[0] for p in problems})),
                           'detail': str(problems[:4])})
    msgs = [m for m in check_messages(cache) if not m.startswith('empty directory')]
    if msgs:
        violations.append({'rule': '%s/check' % pid, 'sig': ','.join(sorted({m.split(':')[0] for m in msgs})),
                           'detail': str(msgs[:3])})
