"""Sequential key-value model used by the linearizability checks (C05, C06,
C12, C20): no expiry, no eviction.  State is a frozenset of (key, value-fp)."""
import json

from . import vals
from .ops import fp, fp_spec

_KCACHE = {}


def kid(kspec):
    r = repr(kspec)
    got = _KCACHE.get(r)
    if got is None:
        got = _KCACHE[r] = repr(vals.key_ident(vals.dec(kspec)))
    return got


def _get(state, k):
    for kk, v in state:
        if kk == k:
            return v
    return None


def _put(state, k, v):
    return frozenset([(kk, vv) for kk, vv in state if kk != k] + [(k, v)])


def _rm(state, k):
    return frozenset((kk, vv) for kk, vv in state if kk != k)


SEP = '\x01'


def _v(cur):
    """value fingerprint of a stored entry (entries written with a tag are 'vfp SEP tagfp')."""
    return cur.split(SEP, 1)[0]


def _t(cur):
    return cur.split(SEP, 1)[1] if SEP in cur else 'None'


OK_TRUE = ('ok', 'True')
OK_FALSE = ('ok', 'False')
OK_NONE = ('ok', 'None')


def apply(state, op, depth=0):
    name = op['op']
    if name == 'txn':
        return _txn(state, op, depth)
    if name in ('sleep', 'close'):
        return state, OK_NONE
    if name == 'reset':
        return state, ('ok', fp(op['value']))
    if name == 'open_settings':
        return state, None
    if name == 'len':
        return state, ('ok', fp(len(state)))
    if name == 'clear':
        return frozenset(), ('ok', fp(len(state)))
    k = kid(op['k'])
    cur = _get(state, k)
    if name == 'set':
        return _put(state, k, _val(op)), OK_TRUE
    if name == 'setitem':
        return _put(state, k, _val(op)), OK_NONE
    if name == 'add':
        if cur is not None:
            return state, OK_FALSE
        return _put(state, k, _val(op)), OK_TRUE
    if name in ('incr', 'decr'):
        delta = op.get('delta', 1)
        if name == 'decr':
            delta = -delta
        if cur is None:
            default = op.get('default', 0)
            if default is None:
                return state, ('exc', 'KeyError')
            new = default + delta
        else:
            if not cur.startswith('i:'):
                return state, ('exc', 'TypeError')
            new = int(_v(cur)[2:]) + delta
            if SEP in cur:      # incr keeps the item's tag
                return _put(state, k, 'i:%d' % new + SEP + _t(cur)), ('ok', 'i:%d' % new)
        return _put(state, k, 'i:%d' % new), ('ok', 'i:%d' % new)
    if name == 'get':
        if cur is None:
            d = fp_spec(op['default']) if 'default' in op else 'None'
            return state, ('ok', 't(%s,None)' % d if op.get('tag') else d)
        if op.get('tag'):
            return state, ('ok', 't(%s,%s)' % (_v(cur), _t(cur)))
        return state, ('ok', _v(cur))
    if name in ('getitem', 'read'):
        if cur is None:
            return state, ('exc', 'KeyError')
        return state, ('ok', _v(cur))
    if name == 'contains':
        return state, (OK_TRUE if cur is not None else OK_FALSE)
    if name == 'touch':
        return state, (OK_TRUE if cur is not None else OK_FALSE)
    if name == 'pop':
        if cur is None:
            return state, ('ok', fp_spec(op['default']) if 'default' in op else 'None')
        return _rm(state, k), ('ok', _v(cur))
    if name == 'ipop':
        if cur is None:
            if 'default' in op:
                return state, ('ok', fp_spec(op['default']))
            return state, ('exc', 'KeyError')
        return _rm(state, k), ('ok', _v(cur))
    if name == 'delete':
        if cur is None:
            return state, OK_FALSE
        return _rm(state, k), OK_TRUE
    if name == 'delitem':
        if cur is None:
            return state, ('exc', 'KeyError')
        return _rm(state, k), OK_NONE
    if name == 'remove_if_tag':
        # one row's share of a bulk removal (evict(tag), expire()): the row goes if it still matches at this instant
        if cur is not None and (op.get('tag') is None or _t(cur) == fp(vals.dec(op['tag']))):
            return _rm(state, k), OK_NONE
        return state, OK_NONE
    if name == 'setdefault':
        if cur is None:
            v = _val(op)
            return _put(state, k, v), ('ok', _v(v))
        return state, ('ok', _v(cur))
    raise ValueError('kvmodel: unsupported op %r' % name)


def _val(op):
    if op.get('read'):
        v = vals.dec(op['v'])
        base = fp(v if isinstance(v, bytes) else __import__('pickle').dumps(v))
    else:
        base = fp_spec(op['v'])
    tag = op.get('tag')
    if tag is not None and tag is not True and op.get('op') in ('set', 'add'):
        return base + SEP + fp(vals.dec(tag))
    return base


def _txn(state, op, depth=0, apply_fn=None):
    """Blocks nest and only the outermost one commits or rolls back: an
    inner block that raises (and whose exception the outer body swallows)
    leaves its effects pending in the outer transaction."""
    apply = apply_fn or globals()['apply']
    body = op['body']
    raise_at = op.get('raise_at')
    results = []
    cur = state
    for i, sub in enumerate(body):
        if raise_at is not None and i == raise_at:
            return (state if depth == 0 else cur), ('ok', 'abort:' + json.dumps(results))
        cur, r = apply(cur, sub, depth + 1)
        results.append(r)
    if raise_at is not None and raise_at >= len(body):
        return (state if depth == 0 else cur), ('ok', 'abort:' + json.dumps(results))
    return cur, ('ok', 'commit:' + json.dumps(results))


def is_miss(rec):
    """Did a completed lookup report a miss?"""
    op, res = rec['op'], rec['res']
    if op['op'] == 'get':
        d = fp_spec(op['default']) if 'default' in op else 'None'
        return res == ('ok', 't(%s,None)' % d if op.get('tag') else d)
    return res == ('exc', 'KeyError')
