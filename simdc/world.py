"""One simulated run: scratch directory, Sim, seams, teardown."""
import os
import shutil
import tempfile

from . import seams
from .kernel import Sim, SimIncident, Killed, Aborted

SCRATCH_BASE = '/dev/shm' if os.path.isdir('/dev/shm') and os.access('/dev/shm', os.W_OK) else None


class World:
    def __init__(self, seed, sched=None, clock=None, step_cap=50000, line_p=0.0,
                 yield_clock=True, keep_log=False, dircollide=False, post_stmt_yield=False):
        self.dc = seams.install()
        self.root = tempfile.mkdtemp(prefix='simdc-%d-' % os.getpid(), dir=SCRATCH_BASE)
        self.sim = Sim(seed, sched=sched, clock=clock, step_cap=step_cap, line_p=line_p,
                       yield_clock=yield_clock, keep_log=keep_log)
        self.sim.dircollide = dircollide
        self.sim.post_stmt_yield = post_stmt_yield
        seams.activate(self.sim, self.root)

    def path(self, *parts):
        return os.path.join(self.root, *parts)

    def close(self):
        try:
            seams.deactivate()
        finally:
            shutil.rmtree(self.root, ignore_errors=True)

    def __enter__(self):
        return self

    def __exit__(self, *exc):
        self.close()
        return False
