"""Simulator kernel: tasks under a baton, seeded scheduler, virtual clock,
timers, simulated processes, kill, event log.  See DESIGN.md section 3.

Exactly one thread runs at any time.  The running thread makes the scheduling
decision itself at every seam call (no kernel thread): it picks the next
runnable task from the run's PRNG and, if that is another task, hands the baton
over and parks.  Every choice is drawn from PRNGs derived from the run's seed,
and nothing reads a real clock, so one seed is one execution.
"""
import os
import hashlib
import heapq
import random
import sys
import threading

WATCHDOG_S = 60.0


class Killed(BaseException):
    """Raised at every seam call of a task whose simulated process is dead."""


class Aborted(BaseException):
    """Raised at seam calls once the run is being torn down."""


class SimIncident(Exception):
    """Harness-level problem (never a property violation by itself)."""

    def __init__(self, kind, msg=''):
        super().__init__('%s: %s' % (kind, msg))
        self.kind = kind


class Proc:
    def __init__(self, sim, name, pid, skew=0.0):
        self.sim = sim
        self.name = name
        self.pid = pid
        self.skew = skew
        self.killed = False
        self.conns = []   # SimConn objects opened by tasks of this process
        self.files = []   # SimFile objects currently open
        self.seams = 0    # seam events of this process


class Task:
    def __init__(self, sim, name, proc, fn, tid):
        self.sim = sim
        self.name = name
        self.proc = proc
        self.fn = fn
        self.tid = tid
        self.sem = threading.Semaphore(0)
        self.state = 'new'       # new | runnable | blocked | done
        self.block = None        # ('sleep', t) | ('lock', db, deadline) | ('join', task)
        self.result = None
        self.exc = None
        self.thread = None
        self.op = -1             # index of the client operation in progress
        self.op_seams = 0        # seam events inside the current operation
        self.op_sql = 0
        self.op_fs = 0
        self.clock_reads = []
        self.prio = 0.0
        self.tracing = False


class Sim:
    """One simulated run."""

    def __init__(self, seed, sched=None, clock=None, step_cap=50000,
                 line_p=0.0, yield_clock=True, keep_log=False):
        self.seed = seed
        sched = dict(sched or {'kind': 'uniform'})
        clock = dict(clock or {'mode': 'frozen'})
        self.sched = sched
        self.clockcfg = clock
        self.rng_sched = random.Random('%s/sched' % seed)
        self.rng_timer = random.Random('%s/timer-race' % seed)      # its own stream: replays by explicit schedule draw the same
        self.rng_clock = random.Random('%s/clock' % seed)
        self.rng_fault = random.Random('%s/fault' % seed)
        self.rng_os = random.Random('%s/os' % seed)
        self.rng_line = random.Random('%s/line' % seed)
        self.now = clock.get('epoch', 1600000000.0)
        self.step = 0
        self.step_cap = step_cap
        # statements executed by the harness thread itself (single-client checks run the code under test there): a call that
        # never returns shows up as this count passing its cap, deterministically, instead of as a worker that hangs
        self.timer_race_p = 0.0
        self.hsteps = 0
        self.hcap = int(os.environ.get('VERIF_HCAP', '100000'))
        self.line_p = line_p
        self.yield_clock = yield_clock
        self.tasks = []
        self.procs = {}
        self.timers = []
        self.tseq = 0
        self.current = None       # running Task, or None = harness thread
        self.main_sem = threading.Semaphore(0)
        self.aborting = None
        self.picks = []           # decisions at points with >1 runnable task
        self.explicit = list(sched.get('picks', ())) if sched.get('kind') == 'explicit' else None
        self.explicit_i = 0
        self.switches = 0
        self.hash = hashlib.sha256()
        self.keep_log = keep_log
        self.log = []
        self.faults = []          # fault dicts (see faults.py)
        self.fired = {}           # fault kind -> count actually fired
        self.probes = {}          # reach probes
        self.lock_waiters = {}    # db path -> list of tasks
        self.next_pid = 1000
        self.next_tid = 1
        self.harness_proc = Proc(self, 'harness', 1)
        self.procs['harness'] = self.harness_proc
        self.conns = []
        self.virtual_covered = 0.0
        self._t0 = self.now
        self.pct_points = None
        if sched.get('kind') == 'pct':
            n = sched.get('d', 3)
            horizon = sched.get('horizon', 400)
            self.pct_points = sorted(self.rng_sched.randrange(1, horizon) for _ in range(n))
        self.op_hook = None

    # ---- bookkeeping -------------------------------------------------
    def probe(self, name, n=1):
        self.probes[name] = self.probes.get(name, 0) + n

    def fire(self, kind):
        self.fired[kind] = self.fired.get(kind, 0) + 1

    def event(self, *items):
        rec = repr(items)
        self.hash.update(rec.encode('utf-8', 'backslashreplace'))
        if self.keep_log:
            self.log.append(items)

    def digest(self):
        return self.hash.hexdigest()

    def proc(self, name, skew=0.0):
        p = self.procs.get(name)
        if p is None:
            p = Proc(self, name, self.next_pid, skew)
            self.next_pid += 1
            self.procs[name] = p
        return p

    def cur_proc(self):
        t = self.current
        return self.harness_proc if t is None else t.proc

    # ---- clock ---------------------------------------------------------
    def read_clock(self):
        """Clock reading of the current task's process (a seam)."""
        t = self.current
        mode = self.clockcfg.get('mode')
        if mode == 'tick':
            self.now += self.rng_clock.choice((1e-6, 1e-5, 1e-4, 1e-3))
        elif mode == 'slow':
            # a slow machine: every look at the clock finds it a fixed step later (clockcfg['step'] seconds)
            self.now += self.clockcfg.get('step', 0.004)
        elif mode == 'jumpy':
            r = self.rng_clock.random()
            if r < 0.02:
                self.now += self.rng_clock.choice((1.0, 30.0, 3600.0))
                self.fire('clock-jump')
            elif r < 0.03:
                self.now -= self.rng_clock.choice((1e-3, 0.5))
                self.fire('clock-back')
            else:
                self.now += self.rng_clock.choice((1e-6, 1e-4, 1e-3))
        value = self.now + (t.proc.skew if t is not None else self.harness_proc.skew)
        if t is not None:
            t.clock_reads.append(value)
            if self.yield_clock:
                self.seam('clock')
        return value

    def advance(self, dt):
        self.now += dt

    # ---- tasks ---------------------------------------------------------
    def spawn(self, name, proc, fn):
        if isinstance(proc, str):
            proc = self.proc(proc)
        task = Task(self, name, proc, fn, self.next_tid)
        self.next_tid += 1
        task.prio = self.rng_sched.random()
        self.tasks.append(task)
        th = threading.Thread(target=self._task_main, args=(task,), name='sim-' + name, daemon=True)
        task.thread = th
        task.state = 'runnable'
        th.start()
        return task

    def _task_main(self, task):
        task.sem.acquire()
        self.current = task
        try:
            if self.aborting:
                raise Aborted()
            if task.proc.killed:
                raise Killed()
            if self.line_p > 0:
                self._install_trace(task)
            task.result = task.fn()
        except Killed as exc:
            task.exc = exc
        except Aborted as exc:
            task.exc = exc
        except BaseException as exc:  # noqa
            task.exc = exc
        finally:
            sys.settrace(None)
            task.state = 'done'
            self.event('done', task.name, type(task.exc).__name__ if task.exc else None)
            self._wake_joiners(task)
            if self.aborting:
                self.main_sem.release()
            else:
                self._handoff_from_done()

    def _wake_joiners(self, task):
        for t in self.tasks:
            if t.state == 'blocked' and t.block and t.block[0] == 'join' and t.block[1] is task:
                t.state = 'runnable'
                t.block = None

    def _handoff_from_done(self):
        try:
            nxt = self._pick(None)
        except SimIncident as inc:
            self._abort(inc)
            return
        if nxt is None:
            self.current = None
            self.main_sem.release()
        else:
            self.current = nxt
            nxt.sem.release()

    def _abort(self, incident):
        if not self.aborting:
            self.aborting = incident
        self.current = None
        self.main_sem.release()

    def run(self):
        """Run all spawned tasks to completion (called from the harness thread)."""
        if not any(t.state != 'done' for t in self.tasks):
            return
        try:
            nxt = self._pick(None)
        except SimIncident as inc:
            self.aborting = inc
            nxt = None
        if nxt is not None:
            self.current = nxt
            nxt.sem.release()
            if not self.main_sem.acquire(timeout=WATCHDOG_S * 4):
                self.aborting = SimIncident('watchdog', 'no progress for %ss (task %s)' % (
                    WATCHDOG_S * 4, self.current.name if self.current else None))
        self.current = None
        if self.aborting:
            self._teardown()
            raise self.aborting
        self.virtual_covered = self.now - self._t0

    def _teardown(self):
        # Let every parked task unwind: all seam calls raise Aborted now.
        for t in self.tasks:
            if t.state != 'done':
                t.sem.release()
        for t in self.tasks:
            if t.thread is not None:
                t.thread.join(timeout=5.0)
        # drain main_sem
        while self.main_sem.acquire(blocking=False):
            pass
        self.current = None

    # ---- scheduling ------------------------------------------------------
    def _runnable(self):
        return [t for t in self.tasks if t.state == 'runnable']

    def _fire_timers(self):
        """Advance the clock to the next timer when nothing is runnable."""
        while self.timers:
            when, _, task, token = heapq.heappop(self.timers)
            if task.state != 'blocked' or task.block is None or task.block[-1] != token:
                continue
            if when > self.now:
                self.now = when
            self._unblock(task)
            # release everything due at the same instant
            while self.timers and self.timers[0][0] <= self.now:
                w2, _, t2, tok2 = heapq.heappop(self.timers)
                if t2.state == 'blocked' and t2.block is not None and t2.block[-1] == tok2:
                    self._unblock(t2)
            return True
        return False

    def _unblock(self, task):
        if task.block and task.block[0] == 'lock':
            lst = self.lock_waiters.get(task.block[1])
            if lst and task in lst:
                lst.remove(task)
        task.state = 'runnable'
        task.block = None

    def _due_timers(self):
        while self.timers and self.timers[0][0] <= self.now:
            _, _, task, token = heapq.heappop(self.timers)
            if task.state == 'blocked' and task.block is not None and task.block[-1] == token:
                self._unblock(task)

    def _pick(self, cur):
        self._due_timers()
        runnable = self._runnable()
        if self.timer_race_p and self.timers and runnable and self.rng_timer.random() < self.timer_race_p:
            # opt-in (one scenario of C06): the runnable tasks are slow - the next timer (a busy timeout, a sleep) expires
            # although somebody could still run.  Without it a timeout only elapses when everybody waits.
            self._fire_timers()
            self.fire('timer-race')
            runnable = self._runnable()
        while not runnable:
            if not self._fire_timers():
                if all(t.state == 'done' for t in self.tasks):
                    return None
                waiting = [t for t in self.tasks if t.state == 'blocked' and t.block and t.block[0] == 'event']
                if waiting:
                    # helpers waiting for a trigger that never came: let them finish
                    for t in waiting:
                        self._unblock(t)
                    runnable = self._runnable()
                    continue
                raise SimIncident('deadlock', 'blocked: %s' % [
                    (t.name, t.block[:2] if t.block else None) for t in self.tasks if t.state != 'done'])
            runnable = self._runnable()
        if len(runnable) == 1:
            return runnable[0]
        kind = self.sched.get('kind', 'uniform')
        if self.explicit is not None:
            choice = None
            if self.explicit_i < len(self.explicit):
                want = self.explicit[self.explicit_i]
                self.explicit_i += 1
                for t in runnable:
                    if t.name == want:
                        choice = t
                        break
            if choice is None:
                choice = cur if (cur in runnable and self.sched.get('fallback') == 'stay') else runnable[0]
        elif kind == 'sticky':
            if cur in runnable and self.rng_sched.random() < self.sched.get('p', 0.8):
                choice = cur
            else:
                choice = self.rng_sched.choice(runnable)
        elif kind == 'pct':
            if self.pct_points and self.step >= self.pct_points[0]:
                self.pct_points.pop(0)
                if cur is not None:
                    cur.prio = -self.rng_sched.random() - len(self.picks) * 1e-6
            choice = max(runnable, key=lambda t: t.prio)
        else:
            choice = self.rng_sched.choice(runnable)
        self.picks.append(choice.name)
        return choice

    def seam(self, kind, detail=None):
        """A seam event of the current task: count, log, maybe switch task."""
        task = self.current
        if task is None:
            return
        if self.aborting:
            raise Aborted()
        proc = task.proc
        if proc.killed:
            raise Killed()
        self.step += 1
        proc.seams += 1
        task.op_seams += 1
        self.event(self.step, task.name, kind, detail)
        if self.step > self.step_cap:
            inc = SimIncident('stepcap', 'step cap %d reached in task %s op %s' % (
                self.step_cap, task.name, task.op))
            self._abort(inc)
            raise Aborted()
        if self.faults:
            self._seam_faults(task, kind, detail)
        self._switch(task)

    def _seam_faults(self, task, kind, detail):
        for f in self.faults:
            if f.get('done'):
                continue
            ft = f['f']
            if ft == 'kill':
                if f.get('task', task.name) != task.name and f.get('proc') != task.proc.name:
                    continue
                if 'op' in f:
                    if task.op != f['op'] or task.op_seams != f['k']:
                        continue
                elif task.proc.seams != f['at']:
                    continue
                f['done'] = True
                self.fire('kill')
                self.event('KILL', task.proc.name, kind, detail)
                f['where'] = [kind, detail]
                self.kill_proc(task.proc, torn=f.get('torn'))
                raise Killed()
            elif ft == 'hook':
                if f.get('task') != task.name or task.op != f['op'] or task.op_seams != f['k']:
                    continue
                f['done'] = True
                f['fn'](task, kind, detail)
            elif ft == 'stall':
                if f.get('task') != task.name:
                    continue
                if task.op != f.get('op', task.op) or task.op_seams != f['k']:
                    continue
                f['done'] = True
                self.fire('stall')
                self.sleep(f['dur'], exact=True)

    def _switch(self, task):
        try:
            nxt = self._pick(task)
        except SimIncident as inc:
            self._abort(inc)
            raise Aborted()
        if nxt is task:
            return
        self.switches += 1
        self.current = nxt
        nxt.sem.release()
        self._park(task)

    def _park(self, task):
        if not task.sem.acquire(timeout=WATCHDOG_S * 5):
            raise Aborted()
        self.current = task
        if self.aborting:
            raise Aborted()
        if task.proc.killed:
            raise Killed()

    def block_current(self, block, deadline=None):
        """Park the current task until unblocked (timer or event)."""
        task = self.current
        self.tseq += 1
        token = self.tseq
        task.block = tuple(block) + (token,)
        task.state = 'blocked'
        if deadline is not None:
            heapq.heappush(self.timers, (deadline, token, task, token))
        try:
            nxt = self._pick(task)
        except SimIncident as inc:
            task.state = 'runnable'
            self._abort(inc)
            raise Aborted()
        if nxt is task:
            return
        if nxt is None:
            # cannot happen: task itself is not done
            raise SimIncident('internal', 'no task to run')
        self.switches += 1
        self.current = nxt
        nxt.sem.release()
        self._park(task)

    def sleep(self, dt, exact=False):
        task = self.current
        if task is None:
            self.now += max(dt, 0.0)
            return
        if self.aborting:
            raise Aborted()
        if task.proc.killed:
            raise Killed()
        self.step += 1
        task.proc.seams += 1
        task.op_seams += 1
        if self.step > self.step_cap:
            self._abort(SimIncident('stepcap', 'step cap %d reached in sleep, task %s op %s' % (
                self.step_cap, task.name, task.op)))
            raise Aborted()
        overhead = 0.0 if exact else self.rng_clock.choice((1e-6, 2e-6, 1e-5, 1e-4))
        self.event(self.step, task.name, 'sleep', round(dt, 9))
        self.block_current(('sleep',), self.now + max(dt, 0.0) + overhead)

    def wait_lock(self, db, deadline):
        """Park the current task until a transaction on `db` ends or deadline."""
        task = self.current
        self.lock_waiters.setdefault(db, []).append(task)
        self.probe('lock_wait')
        self.block_current(('lock', db), deadline)

    def db_released(self, db):
        lst = self.lock_waiters.get(db)
        if lst:
            for t in list(lst):
                if t.state == 'blocked':
                    self._unblock(t)
            self.lock_waiters[db] = []

    def join(self, other):
        task = self.current
        if task is None:
            return
        while other.state != 'done':
            self.block_current(('join', other))

    # ---- kill --------------------------------------------------------------
    def kill_proc(self, proc, torn=None):
        """Simulated SIGKILL: no further effect by any task of `proc`; the OS
        closes its descriptors (SQLite rolls back, locks are released)."""
        proc.killed = True
        for f in list(proc.files):
            f._killed_close(torn)
        proc.files = []
        for con in list(proc.conns):
            con._killed_close()
        proc.conns = []
        for t in self.tasks:
            if t.proc is proc and t.state == 'blocked':
                self._unblock(t)

    # ---- line-level pre-emption -----------------------------------------------
    def _install_trace(self, task):
        sim = self
        rng = self.rng_line
        p = self.line_p

        def local(frame, event, arg):
            if event == 'line' and not task.tracing and rng.random() < p:
                if sim.current is task and not sim.aborting and not task.proc.killed:
                    task.tracing = True
                    try:
                        sim.seam('line', frame.f_lineno)
                    finally:
                        task.tracing = False
            return local

        def glob(frame, event, arg):
            fn = frame.f_code.co_filename
            if '/diskcache/' in fn and fn.endswith(('core.py', 'fanout.py', 'persistent.py', 'recipes.py')):
                return local
            return None

        sys.settrace(glob)

    def close_all(self):
        for con in list(self.conns):
            con._final_close()
        self.conns = []


def _stamp(self):
    """Unique, totally ordered stamp for invoke/return events."""
    self.tick += 1
    return self.tick


Sim.tick = 0
Sim.stamp = _stamp
