"""Linearizability checker (Wing-Gong search with memoisation, after Lowe).

ops: list of dicts {'inv': step, 'ret': step or None (pending), 'op': op dict,
'res': observed result tuple, 'task': name, 'tolerate': bool}.
model: object with  apply(state, op) -> (new_state, result)  where state is
hashable.  Pending operations may take effect or not."""
import sys

INF = float('inf')


def check(ops, init_state, apply, max_nodes=400000):
    n = len(ops)
    inv = [o['inv'] for o in ops]
    ret = [INF if o.get('ret') is None else o['ret'] for o in ops]
    completed_mask = 0
    for i, o in enumerate(ops):
        if o.get('ret') is not None:
            completed_mask |= 1 << i
    memo = set()
    nodes = [0]
    best = [0, None]

    sys.setrecursionlimit(max(sys.getrecursionlimit(), 10000))

    def dfs(mask, state, depth):
        if mask & completed_mask == completed_mask:
            return True
        key = (mask, state)
        if key in memo:
            return False
        memo.add(key)
        nodes[0] += 1
        if nodes[0] > max_nodes:
            raise OverflowError('linearizability search exceeded %d nodes' % max_nodes)
        if depth > best[0]:
            best[0] = depth
            best[1] = (mask, state)
        minret = INF
        for i in range(n):
            if not mask >> i & 1 and ret[i] < minret:
                minret = ret[i]
        for i in range(n):
            if mask >> i & 1 or inv[i] >= minret:
                continue
            o = ops[i]
            if ret[i] == INF:
                # pending: may have taken effect (result unknown)
                try:
                    ns, _ = apply(state, o['op'])
                except Exception:
                    continue
                if dfs(mask | 1 << i, ns, depth + 1):
                    return True
                continue
            if o.get('tolerate'):
                if dfs(mask | 1 << i, state, depth + 1):
                    return True
            ns, r = apply(state, o['op'])
            if r == o['res'] or o.get('anyres'):
                if dfs(mask | 1 << i, ns, depth + 1):
                    return True
        return False

    ok = dfs(0, init_state, 0)
    info = {'nodes': nodes[0]}
    if not ok and best[1] is not None:
        mask, state = best[1]
        stuck = [i for i in range(n) if not mask >> i & 1]
        info['linearised'] = best[0]
        info['stuck_ops'] = [(ops[i]['task'], ops[i]['op'].get('op'), ops[i]['res']) for i in stuck[:6]]
    return ok, info


WRITES = {'set', 'setitem', 'add', 'incr', 'decr', 'pop', 'delete', 'delitem', 'clear', 'touch',
          'setdefault', 'popitem', 'ipop', 'evict', 'expire', 'cull'}


def op_keys(op):
    """Keys an op may write/remove (None = any key)."""
    name = op.get('op')
    if name == 'txn':
        out = set()
        for sub in op['body']:
            ks = op_keys(sub)
            if ks is None:
                return None
            out |= ks
        return out
    if name in ('clear', 'popitem', 'evict', 'expire', 'cull'):
        return None
    if name in WRITES and 'k' in op:
        return {repr(op['k'])}
    return set()


REMOVERS = ('delitem', 'ipop', 'pop', 'popitem', 'delete', 'clear', 'dpop', 'dpopleft')


def _flat_names(op):
    """Operation names of an op, blocks flattened to any depth."""
    if op.get('op') != 'txn':
        return [op.get('op')]
    out = []
    for sub in op['body']:
        out.extend(_flat_names(sub))
    return out


def expand_setdefault(ops):
    """Index.setdefault is documented (and anchored) as a get/add loop: model
    a top-level call as atomic insert attempts (result immaterial; one per
    overlapping removal by another client may be needed, the extra ones
    optional) plus the final lookup that produced its result."""
    out = []
    for h in ops:
        if h['op'].get('op') != 'setdefault' or (h.get('ret') is not None and h['res'][0] != 'ok'):
            out.append(h)
            continue
        extra = 0
        for b in ops:
            if b is h or b['task'] == h['task']:
                continue
            names = _flat_names(b['op'])
            if not any(n in REMOVERS for n in names):
                continue
            bret = INF if b.get('ret') is None else b['ret']
            hret = INF if h.get('ret') is None else h['ret']
            if b['inv'] < hret and h['inv'] < bret:
                extra += 1
        add = {'op': 'add', 'k': h['op']['k'], 'v': h['op']['v']}
        if h.get('ret') is None:
            # interrupted call (killed client): any number of its insert attempts may have taken effect
            for _ in range(min(extra, 5) + 1):
                out.append(dict(h, op=add, anyres=True, tolerate=False, ret=None))
            continue
        out.append(dict(h, op=add, anyres=True, tolerate=False))
        for _ in range(min(extra, 5)):
            out.append(dict(h, op=add, anyres=True, tolerate=False, ret=None))
        out.append(dict(h, op={'op': 'getitem', 'k': h['op']['k']}, tolerate=False))
    return out


def expand_bulk_removals(ops, keys, match_tag):
    """evict(tag) / expire() / clear() are documented as iterative: they remove rows batch by batch, each batch in one
    transaction.  A completed (or interrupted) call becomes, for every key of interest, one optional atomic step that
    removes the key if it matches at that instant (`match_tag(op)` gives the tag a row must carry; None = any row)."""
    out = []
    for h in ops:
        name = h['op'].get('op')
        if name not in ('evict', 'expire', 'clear'):
            out.append(h)
            continue
        hret = INF if h.get('ret') is None else h['ret']
        for k in keys:
            # a key re-created by another client while the removal runs gets a new row further on, which a later batch of
            # the same call may remove again: one optional step, plus one per overlapping write of that key
            again = 0
            for b in ops:
                if b is h or b['task'] == h['task'] or b['op'].get('k') != k or b['op'].get('op') not in WRITES:
                    continue
                bret = INF if b.get('ret') is None else b['ret']
                if b['inv'] < hret and h['inv'] < bret:
                    again += 1
            for _ in range(1 + min(again, 4)):
                out.append(dict(h, op={'op': 'remove_if_tag', 'k': k, 'tag': match_tag(h['op'])}, anyres=True, tolerate=True))
    return out


def mark_tolerated_misses(ops, lookups=('get', 'getitem', 'read'), miss=None):
    """C05's single tolerated anomaly: a lookup that reported a miss while a
    write/removal of the same key by another client overlapped it."""
    for a in ops:
        a['tolerate'] = False
        if a['op'].get('op') not in lookups or a.get('ret') is None:
            continue
        if not miss(a):
            continue
        k = repr(a['op']['k'])
        for b in ops:
            if b is a or b['task'] == a['task']:
                continue
            ks = op_keys(b['op'])
            if ks is not None and k not in ks:
                continue
            bret = INF if b.get('ret') is None else b['ret']
            if b['inv'] < a['ret'] and a['inv'] < bret:
                a['tolerate'] = True
                break
