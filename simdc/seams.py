"""Seams: proxies substituted for the module globals of diskcache
(time, os, os.path, sqlite3, open, threading, tempfile, random, rmtree).
See DESIGN.md section 2.  Nothing in /repo changes; the proxies are installed
after import and consult the active Sim (module global ACTIVE).  With no
active Sim every proxy passes straight through to the real function.
"""
import builtins
import errno as _errno
import importlib
import os as _os
import os.path as _op
import random as _random
import shutil as _shutil
import sqlite3 as _sqlite3
import sys
import tempfile as _tempfile
import threading as _threading
import time as _time
import weakref

from .kernel import Killed, Aborted, SimIncident

ACTIVE = None          # the Sim of the run in progress (one per worker process)
GUARD = 'DISKCACHE_VERIF'

_ERRNO = {'ENOSPC': _errno.ENOSPC, 'EIO': _errno.EIO, 'EACCES': _errno.EACCES,
          'EMFILE': _errno.EMFILE, 'EEXIST': _errno.EEXIST}


def sim():
    return ACTIVE


def _task():
    s = ACTIVE
    return None if s is None else s.current


def _short(path):
    """Stable description of a path: strip the run's scratch root."""
    s = ACTIVE
    path = str(path)
    if s is not None and getattr(s, 'root', None) and path.startswith(s.root):
        return path[len(s.root):]
    return path


# ---------------------------------------------------------------------------
# fault consultation for statement / file-system seams

def _fault_sql(s, task, stmt):
    """Return an exception to raise instead of executing, or None."""
    for f in s.faults:
        if f.get('done'):
            continue
        ft = f['f']
        if ft == 'sqlerr':
            if f.get('task') != task.name or task.op != f.get('op', task.op):
                continue
            if task.op_sql != f['n']:
                continue
            if f.get('only') and not stmt.lstrip().upper().startswith(f['only']):
                continue
            f['done'] = True
            f['where'] = stmt[:40]
            s.fire('sqlerr')
            return _sqlite3.OperationalError(f.get('msg', 'disk I/O error'))
        if ft == 'busy1':
            if f.get('task') != task.name or task.op != f.get('op', task.op):
                continue
            if not stmt.startswith('BEGIN'):
                continue
            f['done'] = True
            s.fire('busy-spurious')
            return _sqlite3.OperationalError('database is locked')
    return None


def _fault_fs(s, task, call, path):
    for f in s.faults:
        if f.get('done') or f['f'] != 'oserr':
            continue
        if f.get('task') != task.name or task.op != f.get('op', task.op):
            continue
        if f.get('lasting') and f.get('active_call'):
            # a condition that outlasts one system call (descriptors exhausted, permission lost, device error): every later
            # call of the same kind within the same operation fails the same way
            if call != f['active_call'] or task.op_fs <= f['n']:
                continue
            f['repeats'] = f.get('repeats', 0) + 1
            if f['repeats'] >= f.get('lasting_calls', 3):
                f['done'] = True       # ... and then passes (some loops in the library retry until a file can be read)
        else:
            if task.op_fs != f['n']:
                continue
            if f.get('calls') and call not in f['calls']:
                continue
            if f.get('lasting'):
                f['active_call'] = call
            else:
                f['done'] = True
            f['where'] = [call, _short(path)]
        s.fire('oserr')
        s.fire('oserr:' + call)
        if f.get('repeats'):
            s.fire('oserr:lasting')
        if f.get('errno') == 'INTERRUPT':
            # not an OSError at all: what a signal handler raises in the middle of a system call (KeyboardInterrupt, SystemExit);
            # the process survives it and goes on
            from .ops import StreamInterrupt
            s.fire('interrupt')
            return StreamInterrupt('interrupted in %s' % call)
        if f.get('errno') == 'EEXIST' and call == 'open':
            return FileExistsError(_errno.EEXIST, 'File exists (injected)', str(path))
        code = _ERRNO.get(f.get('errno', 'ENOSPC'), _errno.ENOSPC)
        return OSError(code, _os.strerror(code) + ' (injected)', str(path))
    return None


def _fs_seam(call, path):
    """Common pre-call seam of a file-system operation."""
    s = ACTIVE
    if s is None:
        return
    task = s.current
    if task is None:
        return
    task.op_fs += 1
    exc = _fault_fs(s, task, call, path) if s.faults else None
    s.seam('fs:' + call, _short(path))
    if exc is not None:
        raise exc


# ---------------------------------------------------------------------------
# time

class SimTime:
    def __getattr__(self, name):
        return getattr(_time, name)

    @staticmethod
    def time():
        s = ACTIVE
        if s is None:
            return _time.time()
        return s.read_clock()

    @staticmethod
    def sleep(dt):
        s = ACTIVE
        if s is None:
            return _time.sleep(dt)
        # a loaded machine oversleeps: sleeps shorter than the run's quantum take the quantum
        s.sleep(max(dt, getattr(s, 'min_sleep', 0.0)))

    @staticmethod
    def monotonic():
        s = ACTIVE
        if s is None:
            return _time.monotonic()
        return s.read_clock()


# ---------------------------------------------------------------------------
# sqlite3

class SimConn:
    """Wraps a real connection opened with timeout=0, check_same_thread=False.
    The busy timeout is emulated in virtual time (DESIGN.md 3.3)."""

    def __init__(self, s, path, timeout, kwargs):
        self.sim = s
        self.path = path
        self.db = _short(path)
        self.timeout = float(timeout)
        kwargs = dict(kwargs)
        kwargs['timeout'] = 0
        kwargs['check_same_thread'] = False
        self.real = _sqlite3.connect(path, **kwargs)
        if getattr(s, 'var_limit', None):
            # the number of parameters one statement may bind, as in SQLite builds older than 3.32 (999)
            self.real.setlimit(_sqlite3.SQLITE_LIMIT_VARIABLE_NUMBER, s.var_limit)
        self.task = s.current
        self.proc = s.cur_proc()
        self.pid = self.proc.pid
        self.closed = False
        self.cursors = weakref.WeakSet()
        self.proc.conns.append(self)
        s.conns.append(self)

    @property
    def in_transaction(self):
        return self.real.in_transaction

    def _check_owner(self):
        s = self.sim
        t = s.current
        if t is None:
            return
        if t.proc.pid != self.pid:
            s.violations.append(('seam/connection-used-across-processes',
                                 'connection opened by pid %s used by pid %s' % (self.pid, t.proc.pid)))
        elif self.task is not None and t is not self.task:
            s.violations.append(('seam/connection-used-across-threads',
                                 'connection opened by task %s used by task %s' % (self.task.name, t.name)))

    def execute(self, stmt, params=()):
        s = self.sim
        task = s.current
        if task is None or ACTIVE is not s:
            return self._plain(stmt, params)
        if self.closed:
            if task.proc.killed:
                raise Killed()
            raise _sqlite3.ProgrammingError('Cannot operate on a closed database.')
        self._check_owner()
        task.op_sql += 1
        exc = _fault_sql(s, task, stmt) if s.faults else None
        s.seam('sql', stmt[:24])
        if exc is not None:
            if stmt.startswith(('COMMIT', 'ROLLBACK')) and self.real.in_transaction:
                # SQLite rolls the transaction back itself on IOERR/FULL at
                # commit; a ROLLBACK that reports an error has still ended the
                # transaction
                self.real.execute('ROLLBACK')
                s.probe('commit_failed' if stmt.startswith('COMMIT') else 'rollback_failed')
                s.db_released(self.db)
            raise exc
        deadline = None
        while True:
            before = self.real.in_transaction
            try:
                cur = self.real.execute(stmt, params)
            except _sqlite3.OperationalError as err:
                if str(err) != 'database is locked':
                    if before and not self.real.in_transaction:
                        s.db_released(self.db)
                    raise
                s.probe('stmt_blocked')
                if self.timeout <= 0:
                    s.probe('stmt_timed_out')
                    raise
                if deadline is None:
                    deadline = s.now + self.timeout
                if s.now >= deadline:
                    s.probe('stmt_timed_out')
                    raise
                s.event(s.step, task.name, 'lockwait', self.db)
                s.wait_lock(self.db, deadline)
                continue
            break
        self.cursors.add(cur)
        if before and not self.real.in_transaction:
            s.db_released(self.db)
        if s.post_stmt_yield:
            s.seam('sql-done', stmt[:12])
        return cur

    def _plain(self, stmt, params=()):
        if ACTIVE is self.sim and self.sim.current is None and self.pid != self.sim.harness_proc.pid \
                and not self.closed and self.task is None:
            self.sim.violations.append(('seam/connection-used-across-processes',
                                        'connection opened by pid %s used by pid %s' % (self.pid, self.sim.harness_proc.pid)))
        if ACTIVE is self.sim:
            self.sim.hsteps += 1
            if self.sim.hsteps > self.sim.hcap:
                self.sim.hcap = 1 << 60     # report once; what follows (cleanup) runs normally
                raise NoProgress('the harness thread executed more than %d statements: a call does not return' % self.sim.hcap)
        cb = getattr(self.sim, 'on_stmt', None) if ACTIVE is self.sim else None
        if cb is not None:
            cb(self, stmt)      # "meanwhile, another process ..." right before this statement (harness-thread runs only)
        before = self.real.in_transaction
        cur = self.real.execute(stmt, params)
        if before and not self.real.in_transaction and ACTIVE is self.sim:
            self.sim.db_released(self.db)
        return cur

    def close(self):
        s = self.sim
        if self.closed:
            return
        if s.current is not None and ACTIVE is s:
            s.seam('sql-close', self.db)
        self._do_close()

    def _do_close(self):
        if self.closed:
            return
        self.closed = True
        was = False
        try:
            was = self.real.in_transaction
        except Exception:
            pass
        for cur in list(self.cursors):
            try:
                cur.close()
            except Exception:
                pass
        try:
            self.real.close()
        except Exception:
            pass
        if self in self.proc.conns:
            self.proc.conns.remove(self)
        if self in self.sim.conns:
            self.sim.conns.remove(self)
        if was and ACTIVE is self.sim:
            self.sim.db_released(self.db)

    def _killed_close(self):
        self._do_close()

    def _final_close(self):
        self._do_close()

    def __getattr__(self, name):
        return getattr(self.real, name)


class NoProgress(Exception):
    """A call made by the harness thread ran past the statement cap (deterministic stand-in for 'never returns')."""


class SimSqlite:
    """Stands in for the sqlite3 module inside diskcache."""

    def __getattr__(self, name):
        return getattr(_sqlite3, name)

    @staticmethod
    def connect(path, timeout=5.0, **kwargs):
        s = ACTIVE
        if s is None:
            return _sqlite3.connect(path, timeout=timeout, **kwargs)
        if s.current is not None:
            s.seam('sql-connect', _short(path))
        return SimConn(s, path, timeout, kwargs)


# ---------------------------------------------------------------------------
# files

RAW_WRITE_MAX = 4096      # what one write() system call on a raw (unbuffered) file accepts at most


class SimFile:
    """Unbuffered-at-the-seam wrapper around a real file: every write / read /
    close is a seam event; a kill during writing leaves a seeded prefix."""

    def __init__(self, s, real, path, mode, raw=False):
        self.sim = s
        self.real = real
        self.path = path
        self.mode = mode
        # opened with buffering=0: write() is the system call itself, which may accept only part of what it is given and
        # says so in its return value (a buffered writer loops by itself; a raw one leaves that to its caller)
        self.raw = raw
        self.writing = any(c in mode for c in 'wxa+')
        self.proc = s.cur_proc()
        self.dead = False
        self.proc.files.append(self)

    def write(self, data):
        s = self.sim
        task = s.current
        if task is not None and ACTIVE is s and not self.dead:
            task.op_fs += 1
            exc = _fault_fs(s, task, 'write', self.path) if s.faults else None
            self._pending = data
            try:
                s.seam('fs:write', len(data))
            finally:
                self._pending = None
            if exc is not None:
                # a failing write may have written part of the chunk
                part = data[:len(data) // 2]
                if part:
                    self.real.write(part)
                    self.real.flush()
                raise exc
        if self.dead:
            raise Killed()
        if self.raw and len(data) > RAW_WRITE_MAX:
            data = bytes(data[:RAW_WRITE_MAX])
            self.sim.raw_short_writes = getattr(self.sim, 'raw_short_writes', 0) + 1
        n = self.real.write(data)
        self.real.flush()
        return n

    def read(self, *args):
        s = self.sim
        task = s.current
        if task is not None and ACTIVE is s and not self.dead:
            task.op_fs += 1
            exc = _fault_fs(s, task, 'read', self.path) if s.faults else None
            s.seam('fs:read', _short(self.path))
            if exc is not None:
                raise exc
        return self.real.read(*args)

    def readline(self, *args):
        return self.real.readline(*args)

    def readinto(self, b):
        return self.real.readinto(b)

    def peek(self, *args):
        return self.real.peek(*args)

    def close(self):
        s = self.sim
        task = s.current
        if self.real.closed:
            return
        if task is not None and ACTIVE is s and not self.dead and not task.proc.killed and not s.aborting:
            try:
                task.op_fs += 1
                exc = _fault_fs(s, task, 'close', self.path) if (s.faults and self.writing) else None
                s.seam('fs:close', _short(self.path))
            except BaseException:
                self._really_close()
                raise
            self._really_close()
            if exc is not None:
                raise exc
            return
        self._really_close()

    def _really_close(self):
        try:
            self.real.close()
        except Exception:
            pass
        if self in self.proc.files:
            self.proc.files.remove(self)

    def _killed_close(self, torn):
        """Process died: a chunk handed to write() but not yet written is torn."""
        self.dead = True
        pending = getattr(self, '_pending', None)
        if pending and torn is not None and not self.real.closed:
            n = int(len(pending) * torn)
            if 0 < n:
                try:
                    self.real.write(pending[:n])
                    self.real.flush()
                    self.sim.probe('kill_torn_chunk')
                except Exception:
                    pass
        if self.writing:
            self.sim.probe('kill_mid_file_write')
        self._really_close()

    def __enter__(self):
        return self

    def __exit__(self, *exc):
        self.close()
        return False

    def __iter__(self):
        return iter(self.real)

    def __getattr__(self, name):
        return getattr(self.real, name)


def sim_open(path, mode='r', *args, **kwargs):
    s = ACTIVE
    cb = getattr(s, 'on_open', None) if s is not None else None
    if cb is not None:
        cb(str(path), mode)      # "meanwhile, another process ..." - a check's way to place a complete foreign call right here
    if s is None or s.current is None:
        return builtins.open(path, mode, *args, **kwargs)
    _fs_seam('open', path)
    real = builtins.open(path, mode, *args, **kwargs)
    buffering = args[0] if args else kwargs.get('buffering', -1)
    return SimFile(s, real, str(path), mode, raw=(buffering == 0 and 'b' in mode))


class SimPath:
    def __getattr__(self, name):
        return getattr(_op, name)

    @staticmethod
    def getsize(path):
        _fs_seam('getsize', path)
        return _op.getsize(path)

    @staticmethod
    def exists(path):
        _fs_seam('exists', path)
        return _op.exists(path)

    @staticmethod
    def isdir(path):
        _fs_seam('isdir', path)
        return _op.isdir(path)


class SimOS:
    path = None  # set below

    def __getattr__(self, name):
        return getattr(_os, name)

    @staticmethod
    def getpid():
        s = ACTIVE
        if s is None:
            return _os.getpid()
        return s.cur_proc().pid

    @staticmethod
    def urandom(n):
        s = ACTIVE
        if s is None:
            return _os.urandom(n)
        data = bytes(s.rng_os.getrandbits(8) for _ in range(n))
        if s.dircollide and n >= 2:
            data = bytes([s.rng_os.choice((0x0a, 0x0b)), 0x01]) + data[2:]
        return data

    @staticmethod
    def makedirs(path, *args, **kwargs):
        _fs_seam('makedirs', path)
        return _os.makedirs(path, *args, **kwargs)

    @staticmethod
    def remove(path, **kwargs):
        _fs_seam('remove', path)
        return _os.remove(path, **kwargs)

    @staticmethod
    def removedirs(path):
        _fs_seam('removedirs', path)
        return _os.removedirs(path)

    @staticmethod
    def rmdir(path):
        _fs_seam('rmdir', path)
        return _os.rmdir(path)

    @staticmethod
    def listdir(path):
        _fs_seam('listdir', path)
        return sorted(_os.listdir(path))

    @staticmethod
    def walk(top, topdown=True, **kwargs):
        _fs_seam('walk', top)
        out = []
        for dirpath, dirs, files in _os.walk(top, topdown=topdown, **kwargs):
            dirs.sort()
            files.sort()
            out.append((dirpath, dirs, files))
        if not topdown:
            # os.walk bottom-up order depends on listing order; normalise
            out.sort(key=lambda rec: (-rec[0].count(_os.sep), rec[0]))
        return iter(out)


class SimTempfile:
    def __getattr__(self, name):
        return getattr(_tempfile, name)

    @staticmethod
    def mkdtemp(suffix=None, prefix=None, dir=None):
        s = ACTIVE
        if s is None or not getattr(s, 'root', None):
            return _tempfile.mkdtemp(suffix=suffix, prefix=prefix, dir=dir)
        s.tmp_seq += 1
        path = _op.join(s.root, 'tmp', '%s%04d' % (prefix or 'tmp', s.tmp_seq))
        _os.makedirs(path)
        return path


class SimThread:
    """threading.Thread replacement: the thread becomes a simulator task."""

    def __init__(self, target=None, args=(), kwargs=None, name=None, daemon=None):
        self._target = target
        self._args = args
        self._kwargs = kwargs or {}
        self.daemon = daemon
        self._task = None
        self.name = name

    def start(self):
        s = ACTIVE
        parent = s.current if s is not None else None
        if s is None or parent is None:
            th = _threading.Thread(target=self._target, args=self._args, kwargs=self._kwargs)
            th.daemon = True
            th.start()
            self._real = th
            return
        s.thread_seq += 1
        name = '%s.t%d' % (parent.name, s.thread_seq)
        s.probe('thread_spawned')
        self._task = s.spawn(name, parent.proc, lambda: self._target(*self._args, **self._kwargs))
        s.spawned_threads.append(self._task)

    def join(self, timeout=None):
        s = ACTIVE
        if self._task is not None and s is not None:
            s.join(self._task)
        elif getattr(self, '_real', None) is not None:
            self._real.join(timeout)

    def is_alive(self):
        return self._task is not None and self._task.state != 'done'


class SimExecutor:
    """concurrent.futures.ThreadPoolExecutor replacement: every submitted call becomes a simulator task of the calling process,
    interleaved with the others at seam events by the seeded scheduler (the unchanged library has no pools; code under test
    that starts to use one meets controlled concurrency here instead of real threads nobody decides)."""

    def __init__(self, max_workers=None, *args, **kwargs):
        self._pending = []

    def __enter__(self):
        return self

    def __exit__(self, *exc):
        self.shutdown()
        return False

    class _Future:
        def __init__(self):
            self.done_ = False
            self.value = None
            self.error = None

        def result(self, timeout=None):
            _drive()
            if self.error is not None:
                raise self.error
            return self.value

        def done(self):
            return self.done_

    def submit(self, fn, *args, **kwargs):
        s = ACTIVE
        fut = SimExecutor._Future()
        if s is None:
            try:
                fut.value = fn(*args, **kwargs)
            except BaseException as exc:  # noqa
                fut.error = exc
            fut.done_ = True
            return fut

        def body():
            try:
                fut.value = fn(*args, **kwargs)
            except (Killed, Aborted):
                raise
            except BaseException as exc:  # noqa
                fut.error = exc
            fut.done_ = True
            return True
        s.thread_seq += 1
        parent = s.current
        proc = parent.proc if parent is not None else s.harness_proc
        name = '%s.pool%d' % (parent.name if parent is not None else 'h', s.thread_seq)
        s.probe('pool_task_spawned')
        fut.task = s.spawn(name, proc, body)
        s.spawned_threads.append(fut.task)
        self._pending.append(fut)
        return fut

    def map(self, fn, *iterables, timeout=None, chunksize=1):
        futs = [self.submit(fn, *args) for args in zip(*iterables)]

        def results():
            for f in futs:
                yield f.result()
        return results()

    def shutdown(self, wait=True, **kwargs):
        if wait:
            _drive()


def _drive():
    """Let the spawned pool tasks run: from the harness thread by running the scheduler, from inside a task by waiting."""
    s = ACTIVE
    if s is None:
        return
    if s.current is None:
        s.run()
    else:
        for t in list(s.spawned_threads):
            if t.state != 'done' and t is not s.current:
                s.join(t)


class SimThreading:
    Thread = SimThread

    def __getattr__(self, name):
        return getattr(_threading, name)

    @staticmethod
    def get_ident():
        s = ACTIVE
        if s is None or s.current is None:
            return _threading.get_ident()
        return s.current.tid


class SimRandom:
    """Stands in for the `random` module inside the library.  random() keeps drawing from the run's own stream (the stampede
    recipe's early-recomputation lottery).  Every OTHER generator function draws from a per-process stream that starts from
    the same state in every simulated process - the global generator of a program that seeds it at start-up, in each of its
    workers and again after every restart.  The unchanged library draws nothing else from `random`; code that starts to
    derive names or identifiers from it meets the repetition here."""

    def __getattr__(self, name):
        s = ACTIVE
        if s is None or name.startswith('_') or name in ('Random', 'SystemRandom', 'seed'):
            return getattr(_random, name)
        streams = s.__dict__.setdefault('_proc_random', {})
        pid = s.cur_proc().pid
        rng = streams.get(pid)
        if rng is None:
            rng = streams[pid] = _random.Random(12345)
        s.probe('process_random_drawn')
        return getattr(rng, name)

    @staticmethod
    def random():
        s = ACTIVE
        if s is None:
            return _random.random()
        s.probe('random_drawn')
        return s.rng_os.random()


def sim_rmtree(path, *args, **kwargs):
    _fs_seam('rmtree', path)
    return _shutil.rmtree(path, *args, **kwargs)


_builtin_hash = hash


def sim_hash(obj):
    """Stands in for the builtin hash() inside the library: str and bytes hash differently in every simulated process,
    as they do in real processes (hash randomisation).  The unchanged library never calls hash(); code that starts to
    route, shard or lock by it works within one process and breaks across processes - which one interpreter cannot show
    without this seam.  Deterministic (CRC of the process id and the value), independent of PYTHONHASHSEED."""
    s = ACTIVE
    if s is None:
        return _builtin_hash(obj)
    if isinstance(obj, (str, bytes)):
        import zlib
        data = obj.encode('utf-8', 'surrogatepass') if isinstance(obj, str) else bytes(obj)
        return zlib.crc32(data, s.cur_proc().pid * 2654435761 & 0xFFFFFFFF) - 2 ** 31
    if isinstance(obj, tuple):
        return _builtin_hash(tuple(sim_hash(x) for x in obj))
    if isinstance(obj, frozenset):
        return _builtin_hash(frozenset(sim_hash(x) for x in obj))
    return _builtin_hash(obj)


SIM_TIME = SimTime()
SIM_OS = SimOS()
SIM_PATH = SimPath()
SIM_SQLITE = SimSqlite()
SIM_TEMPFILE = SimTempfile()
SIM_THREADING = SimThreading()
SIM_RANDOM = SimRandom()
SimOS.path = SIM_PATH

_installed = False
dc = None   # the diskcache package under test


def load_diskcache():
    """Import diskcache from DISKCACHE_SRC (a directory containing the
    package) or from /repo's working tree."""
    global dc
    if dc is not None:
        return dc
    src = _os.environ.get('DISKCACHE_SRC', '/repo')
    for name in [n for n in sys.modules if n == 'diskcache' or n.startswith('diskcache.')]:
        del sys.modules[name]
    if src in sys.path:
        sys.path.remove(src)
    sys.path.insert(0, src)
    dc = importlib.import_module('diskcache')
    got = _op.dirname(_op.abspath(dc.__file__))
    if _op.realpath(got) != _op.realpath(_op.join(src, 'diskcache')):
        raise SimIncident('import', 'diskcache imported from %s, wanted %s' % (got, src))
    return dc


def install():
    """Substitute the module globals (idempotent).  Refuses without the guard."""
    global _installed
    if _installed:
        return dc
    if _os.environ.get(GUARD) != '1':
        raise SimIncident('guard', '%s=1 is required to install the seams' % GUARD)
    d = load_diskcache()
    core = importlib.import_module('diskcache.core')
    fanout = importlib.import_module('diskcache.fanout')
    persistent = importlib.import_module('diskcache.persistent')
    recipes = importlib.import_module('diskcache.recipes')
    core.time = SIM_TIME
    core.os = SIM_OS
    core.op = SIM_PATH
    core.sqlite3 = SIM_SQLITE
    core.open = sim_open
    core.threading = SIM_THREADING
    core.tempfile = SIM_TEMPFILE
    fanout.time = SIM_TIME
    fanout.tempfile = SIM_TEMPFILE
    fanout.sqlite3 = SIM_SQLITE
    if hasattr(fanout, 'op'):
        pass  # fanout uses os.path only for joins / exists on shard dirs: left real
    persistent.rmtree = sim_rmtree
    recipes.time = SIM_TIME
    recipes.os = SIM_OS
    recipes.threading = SIM_THREADING
    recipes.random = SIM_RANDOM
    for mod in (core, fanout, persistent, recipes):
        mod.hash = sim_hash
        if hasattr(mod, 'ThreadPoolExecutor'):
            mod.ThreadPoolExecutor = SimExecutor      # only code under test that imports it: the unchanged modules do not
        if hasattr(mod, 'random') and mod is not recipes:
            mod.random = SIM_RANDOM      # only code under test that imports it: the unchanged modules do not
    _installed = True
    return d


def install_django():
    import django.core.cache.backends.base as base
    base.time = SIM_TIME
    mod = importlib.import_module('diskcache.djangocache')
    mod.hash = sim_hash
    return mod


def activate(s, root):
    """Make `s` the active Sim of this process; `root` is its scratch dir."""
    global ACTIVE
    s.root = root.rstrip('/') + '/'
    s.tmp_seq = 0
    s.thread_seq = 0
    s.spawned_threads = []
    s.violations = []
    if not hasattr(s, 'dircollide'):
        s.dircollide = False
    if not hasattr(s, 'post_stmt_yield'):
        s.post_stmt_yield = False
    ACTIVE = s


def deactivate():
    global ACTIVE
    s = ACTIVE
    ACTIVE = None
    if s is not None:
        s.close_all()
