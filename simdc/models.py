"""ModelCache: the sequential reference dictionary with expiry, tags,
statistics and eviction metadata (DESIGN.md 6.1).  It models *physical*
presence (expired items stay until something removes them).  Lazy culling and
size eviction are nondeterministic in the model: the observed removal set is
validated for legality and then adopted (reconcile)."""
import json

from . import vals
from .ops import fp, fp_spec


def _tag(op):
    t = op.get('tag')
    return None if t is None else vals.dec(t)


class Item:
    __slots__ = ('rowid', 'key', 'kid', 'vfp', 'num', 'store', 'expire', 'access', 'count', 'tag', 'size')

    def __init__(self, rowid, key, kid, vfp, num, now, expire, tag):
        self.rowid = rowid
        self.key = key
        self.kid = kid
        self.vfp = vfp
        self.num = num          # numeric value (for incr) or None
        self.store = now
        self.expire = expire
        self.access = now
        self.count = 0
        self.tag = tag
        self.size = 0

    def live(self, now):
        return self.expire is None or self.expire > now


def _tuple_fp(*parts):
    return 't(' + ','.join(parts) + ')'


class ModelCache:
    def __init__(self, policy='least-recently-stored', cull_limit=10, statistics=0, size_limit=2 ** 30):
        self.rows = {}          # rowid -> Item, insertion (rowid) ordered by construction
        self.by_kid = {}
        self.policy = policy
        self.cull_limit = cull_limit
        self.statistics = statistics
        self.size_limit = size_limit
        self.hits = 0
        self.misses = 0
        self.pending = None     # ('cull', now, limit) after a write that culls lazily
        self.evictions = 0
        self.culled_expired = 0

    # ---- helpers -----------------------------------------------------------
    def _new_rowid(self):
        return (max(self.rows) + 1) if self.rows else 1

    def _find(self, kspec):
        key = vals.dec(kspec)
        kid = repr(vals.key_ident(key))
        return key, kid, self.by_kid.get(kid)

    def _insert(self, key, kid, vfp, num, now, expire, tag):
        it = Item(self._new_rowid(), key, kid, vfp, num, now, expire, tag)
        self.rows[it.rowid] = it
        self.by_kid[kid] = it
        return it

    def _update(self, it, vfp, num, now, expire, tag):
        it.vfp = vfp
        it.num = num
        it.store = now
        it.expire = expire
        it.access = now
        it.count = 0
        it.tag = tag

    def _delete(self, it):
        del self.rows[it.rowid]
        del self.by_kid[it.kid]

    @staticmethod
    def _value(op):
        v = vals.dec(op['v'])
        if op.get('read'):
            import pickle
            data = v if isinstance(v, bytes) else pickle.dumps(v)
            return fp(data), None
        num = v if type(v) in (int, float) and v == v else None
        if type(v) is int and not -2 ** 63 <= v < 2 ** 63:
            num = None
        return fp(v), num

    def sorted_items(self):
        return [self.rows[r] for r in sorted(self.rows)]

    # ---- operations ----------------------------------------------------------
    def do(self, op, now):
        """Apply op at clock reading `now`; returns the expected result tuple."""
        self.pending = None
        name = op['op']
        fn = getattr(self, 'op_' + name)
        return fn(op, now)

    def op_repolicy(self, op, now):
        self.policy = op['policy']
        return ('ok', fp(op['policy']))

    def op_set(self, op, now):
        key, kid, it = self._find(op['k'])
        vfp, num = self._value(op)
        expire = None if op.get('expire') is None else now + op['expire']
        if it is not None:
            self._update(it, vfp, num, now, expire, _tag(op))
        else:
            it = self._insert(key, kid, vfp, num, now, expire, _tag(op))
        self.pending = ('cull', now, it)
        return ('ok', 'True')

    def op_setitem(self, op, now):
        self.op_set(op, now)
        return ('ok', 'None')

    def op_add(self, op, now):
        key, kid, it = self._find(op['k'])
        vfp, num = self._value(op)
        expire = None if op.get('expire') is None else now + op['expire']
        if it is not None:
            if it.live(now):
                return ('ok', 'False')
            self._update(it, vfp, num, now, expire, _tag(op))
        else:
            it = self._insert(key, kid, vfp, num, now, expire, _tag(op))
        self.pending = ('cull', now, it)
        return ('ok', 'True')

    def op_incr(self, op, now, sign=1):
        key, kid, it = self._find(op['k'])
        delta = sign * op.get('delta', 1)
        default = op.get('default', 0)
        if it is None or not it.live(now):
            if default is None:
                return ('exc', 'KeyError')
            value = default + delta
            if it is None:
                it = self._insert(key, kid, fp(value), value, now, None, None)
            else:
                self._update(it, fp(value), value, now, None, None)
            self.pending = ('cull', now, it)
            return ('ok', fp(value))
        if it.num is None:
            return ('exc', 'TypeError')
        value = it.num + delta
        if type(value) is int and not -2 ** 63 <= value < 2 ** 63:
            # the sum of an existing row is written straight into the INTEGER column: beyond 64 bits the binding fails
            # (documented limit of incr) and the transaction rolls back
            return ('exc', 'OverflowError')
        it.num = value
        it.vfp = fp(value)
        it.store = now
        if self.policy == 'least-recently-used':
            it.access = now
        elif self.policy == 'least-frequently-used':
            it.count += 1
        return ('ok', fp(value))

    def op_decr(self, op, now):
        return self.op_incr(op, now, -1)

    def _lookup_default(self, op):
        d = fp_spec(op['default']) if 'default' in op else 'None'
        et, tg = op.get('expire_time'), op.get('tag')
        if et and tg:
            return _tuple_fp(d, 'None', 'None')
        if et or tg:
            return _tuple_fp(d, 'None')
        return d

    def _lookup_value(self, op, it):
        et, tg = op.get('expire_time'), op.get('tag')
        if et and tg:
            return _tuple_fp(it.vfp, fp(it.expire), fp(it.tag))
        if et:
            return _tuple_fp(it.vfp, fp(it.expire))
        if tg:
            return _tuple_fp(it.vfp, fp(it.tag))
        return it.vfp

    def op_get(self, op, now):
        key, kid, it = self._find(op['k'])
        if it is None or not it.live(now):
            if self.statistics:
                self.misses += 1
            return ('ok', self._lookup_default(op))
        if self.statistics:
            self.hits += 1
        if self.policy == 'least-recently-used':
            it.access = now
        elif self.policy == 'least-frequently-used':
            it.count += 1
        return ('ok', self._lookup_value(op, it))

    def op_getitem(self, op, now):
        key, kid, it = self._find(op['k'])
        if it is None or not it.live(now):
            if self.statistics:
                self.misses += 1
            return ('exc', 'KeyError')
        return self.op_get(op, now)

    op_read = op_getitem

    def op_contains(self, op, now):
        key, kid, it = self._find(op['k'])
        return ('ok', 'True' if it is not None and it.live(now) else 'False')

    def op_touch(self, op, now):
        key, kid, it = self._find(op['k'])
        if it is None or not it.live(now):
            return ('ok', 'False')
        it.expire = None if op.get('expire') is None else now + op['expire']
        return ('ok', 'True')

    def op_pop(self, op, now):
        key, kid, it = self._find(op['k'])
        if it is None or not it.live(now):
            return ('ok', self._lookup_default(op))
        res = self._lookup_value(op, it)
        self._delete(it)
        return ('ok', res)

    def op_delete(self, op, now):
        key, kid, it = self._find(op['k'])
        if it is None or not it.live(now):
            return ('ok', 'False')
        self._delete(it)
        return ('ok', 'True')

    def op_delitem(self, op, now):
        key, kid, it = self._find(op['k'])
        if it is None or not it.live(now):
            return ('exc', 'KeyError')
        self._delete(it)
        return ('ok', 'None')

    def op_clear(self, op, now):
        n = len(self.rows)
        self.rows.clear()
        self.by_kid.clear()
        return ('ok', fp(n))

    def op_evict(self, op, now):
        tag = vals.dec(op['tag'])
        victims = [it for it in self.rows.values() if it.tag is not None and it.tag == tag]
        for it in victims:
            self._delete(it)
        return ('ok', fp(len(victims)))

    def op_expire(self, op, now):
        if op.get('now_shift') is not None:
            now = now + op['now_shift']      # expire(now=T): the caller's own reading decides, not the clock
        victims = [it for it in self.rows.values() if it.expire is not None and it.expire < now]
        for it in victims:
            self._delete(it)
        self.culled_expired += len(victims)
        return ('ok', fp(len(victims)))

    # without size pressure an explicit cull() is expire(); under pressure the caller validates the evictions
    op_cull = op_expire

    def op_len(self, op, now):
        return ('ok', fp(len(self.rows)))

    def op_iter(self, op, now):
        return ('ok', 'keys:' + json.dumps([fp(it.key) for it in self.sorted_items()]))

    def op_reversed(self, op, now):
        return ('ok', 'keys:' + json.dumps([fp(it.key) for it in reversed(self.sorted_items())]))

    def op_peekitem(self, op, now):
        last = op.get('last', True)
        while True:
            if not self.rows:
                return ('exc', 'KeyError')
            rid = max(self.rows) if last else min(self.rows)
            it = self.rows[rid]
            if it.expire is not None and it.expire <= now:
                self._delete(it)
                self.culled_expired += 1
                continue
            pair = _tuple_fp(fp(it.key), it.vfp)
            et, tg = op.get('expire_time'), op.get('tag')
            if et and tg:
                return ('ok', _tuple_fp(pair, fp(it.expire), fp(it.tag)))
            if et:
                return ('ok', _tuple_fp(pair, fp(it.expire)))
            if tg:
                return ('ok', _tuple_fp(pair, fp(it.tag)))
            return ('ok', pair)

    def op_stats(self, op, now):
        res = ('ok', _tuple_fp(fp(self.hits), fp(self.misses)))
        if op.get('reset'):
            self.hits = 0
            self.misses = 0
        self.statistics = 1 if op.get('enable', True) else 0
        return res

    # ---- queues (push / pull / peek) ------------------------------------------
    def _queue_items(self, prefix):
        out = []
        if prefix is None:
            for it in self.rows.values():
                k = it.key
                if type(k) in (int, float) and not isinstance(k, bool) and 0 < k < 999999999999999:
                    if type(k) is int and not -2 ** 63 <= k < 2 ** 63:
                        continue
                    out.append((k, it))
        else:
            lo = (prefix + '-000000000000000').encode('utf-8', 'surrogatepass')
            hi = (prefix + '-999999999999999').encode('utf-8', 'surrogatepass')
            for it in self.rows.values():
                if type(it.key) is str:
                    kb = it.key.encode('utf-8', 'surrogatepass')
                    if lo < kb < hi and len(kb) == len(lo):
                        out.append((kb, it))
        out.sort(key=lambda p: p[0])
        return [it for _, it in out]

    def op_push(self, op, now):
        prefix = op.get('prefix')
        side = op.get('side', 'back')
        items = self._queue_items(prefix)
        if items:
            edge = items[-1] if side == 'back' else items[0]
            if prefix is not None:
                num = int(edge.key[edge.key.rfind('-') + 1:])
            else:
                num = edge.key
            num = num + 1 if side == 'back' else num - 1
        else:
            num = 500000000000000
        key = num if prefix is None else '{0}-{1:015d}'.format(prefix, num)
        vfp, numv = self._value(op)
        expire = None if op.get('expire') is None else now + op['expire']
        kid = repr(vals.key_ident(key))
        it = self._insert(key, kid, vfp, numv, now, expire, _tag(op))
        self.pending = ('cull', now, it)
        return ('ok', fp(key))

    def _queue_default(self, op):
        d = 't(None,None)'
        et, tg = op.get('expire_time'), op.get('tag')
        if et and tg:
            return _tuple_fp(d, 'None', 'None')
        if et or tg:
            return _tuple_fp(d, 'None')
        return d

    def _queue_result(self, op, it):
        pair = _tuple_fp(fp(it.key), it.vfp)
        et, tg = op.get('expire_time'), op.get('tag')
        if et and tg:
            return _tuple_fp(pair, fp(it.expire), fp(it.tag))
        if et:
            return _tuple_fp(pair, fp(it.expire))
        if tg:
            return _tuple_fp(pair, fp(it.tag))
        return pair

    def _queue_take(self, op, now, remove):
        prefix = op.get('prefix')
        side = op.get('side', 'front')
        while True:
            items = self._queue_items(prefix)
            if not items:
                return ('ok', self._queue_default(op))
            it = items[0] if side == 'front' else items[-1]
            if it.expire is not None and it.expire <= now:
                self._delete(it)
                self.culled_expired += 1
                continue
            res = self._queue_result(op, it)
            if remove:
                self._delete(it)
            return ('ok', res)

    def op_pull(self, op, now):
        return self._queue_take(op, now, True)

    def op_peek(self, op, now):
        return self._queue_take(op, now, False)

    # ---- nondeterministic part: lazy cull / eviction ---------------------------
    def reconcile(self, observed_rowids, now, violations, pid, at_limit=None, cull_call=False):
        """Compare the physical row set after an op with the model.
        For writes that cull lazily, validate the removal set and adopt it.
        at_limit: None = size eviction impossible in this configuration;
        True/False = whether volume had (clearly) reached size_limit."""
        obs = set(observed_rowids)
        have = set(self.rows)
        extra = obs - have
        if extra:
            violations.append({'rule': '%s/unexplained-row' % pid, 'sig': 'extra',
                               'detail': 'rows %s exist but the model has no such item' % sorted(extra)[:5]})
            return
        removed = [self.rows[r] for r in sorted(have - obs)]
        if not removed:
            return
        if self.pending is None:
            violations.append({'rule': '%s/removed-without-cause' % pid, 'sig': 'non-culling-op',
                               'detail': 'items %s disappeared in an operation that removes nothing'
                                         % [fp(i.key) for i in removed][:5]})
            return
        _, cnow, written = self.pending
        limit = self.cull_limit
        if written in removed and not (written.expire is not None and written.expire < cnow) and self.policy == 'none':
            pass
        exp_removed = [i for i in removed if i.expire is not None and i.expire < cnow]
        pol_removed = [i for i in removed if i not in exp_removed]
        if len(removed) > limit:
            violations.append({'rule': '%s/cull-limit-exceeded' % pid, 'sig': 'lazy-cull',
                               'detail': '%d items removed by one write, cull_limit=%d' % (len(removed), limit)})
        all_expired = sorted((i for i in self.rows.values() if i.expire is not None and i.expire < cnow),
                             key=lambda i: i.expire)
        # expired ones go first, in expiry order, up to the limit
        want = min(limit, len(all_expired))
        if len(exp_removed) != want:
            violations.append({'rule': '%s/lazy-cull-expired-count' % pid, 'sig': 'lazy-cull',
                               'detail': 'write removed %d expired items, expected %d (limit %d, %d expired)'
                                         % (len(exp_removed), want, limit, len(all_expired))})
        elif exp_removed and len(exp_removed) < len(all_expired):
            kept = [i for i in all_expired if i not in exp_removed]
            if max(i.expire for i in exp_removed) > min(i.expire for i in kept):
                violations.append({'rule': '%s/lazy-cull-order' % pid, 'sig': 'lazy-cull',
                                   'detail': 'expired items not removed in expiry order'})
        if isinstance(at_limit, dict):
            # the limit test of a write follows the removal of expired items: their files no longer count
            freed = sum(i.size or 0 for i in exp_removed)
            at_limit = at_limit['vol'] - freed - at_limit.get('replaced', 0) + at_limit['upper'] + at_limit['slack'] >= self.size_limit
        if pol_removed:
            if at_limit is None or at_limit is False or self.policy == 'none':
                violations.append({'rule': '%s/evicted-below-size-limit' % pid, 'sig': 'policy=%s' % self.policy,
                                   'detail': 'non-expired items %s removed although the size limit was not reached'
                                             % [fp(i.key) for i in pol_removed][:5]})
            else:
                self._check_policy_order(pol_removed, exp_removed, violations, pid)
                self.evictions += len(pol_removed)
        self.culled_expired += len(exp_removed)
        for it in removed:
            self._delete(it)

    def _policy_key(self, it):
        if self.policy == 'least-recently-stored':
            return it.store
        if self.policy == 'least-recently-used':
            return it.access
        if self.policy == 'least-frequently-used':
            return it.count
        return 0

    def _check_policy_order(self, pol_removed, exp_removed, violations, pid):
        gone = set(id(i) for i in pol_removed) | set(id(i) for i in exp_removed)
        survivors = [i for i in self.rows.values() if id(i) not in gone]
        if not survivors:
            return
        worst_removed = max(self._policy_key(i) for i in pol_removed)
        best_kept = min(self._policy_key(i) for i in survivors)
        if worst_removed > best_kept:
            violations.append({'rule': '%s/eviction-order' % pid, 'sig': 'policy=%s' % self.policy,
                               'detail': 'evicted an item with policy key %r while an item with key %r survived'
                                         % (worst_removed, best_kept)})
