"""Deterministic simulation with fault injection for python-diskcache (see /verif/DESIGN.md)."""
