"""Batch runner: seeded search over many simulated runs on a process pool,
evidence, minimisation, replay files, known findings.  DESIGN.md sections 7, 10."""
import concurrent.futures as cf
import copy
import faulthandler
import importlib
import json
import multiprocessing
import os
import re
import subprocess
import sys
import time
import traceback

VERIF = os.path.dirname(os.path.dirname(os.path.abspath(__file__)))
KNOWN_FILE = os.path.join(VERIF, 'known_findings.txt')
COMPONENTS = {
    'real': ['diskcache/{core,fanout,persistent,recipes,djangocache}.py from /repo working tree (or DISKCACHE_SRC)',
             'CPython sqlite3 module + SQLite library (WAL, triggers, indices); only connect(timeout=0, check_same_thread=False) differs',
             'value files and directories on tmpfs (/dev/shm), one fresh directory per run',
             'Django BaseCache where DjangoCache is exercised'],
    'simulated': ['clock, sleeps, SQLite busy timeout (event-driven in virtual time)',
                  'thread/process scheduling (baton, seeded scheduler), pids, thread ids',
                  'os.urandom file names, random.random, temp directory names',
                  'process death (in-process kill: no further effects, descriptors closed); real SIGKILL only in C07 child mode',
                  'OS / SQLite / stream errors injected at the seams'],
}


def check_module(pid):
    return importlib.import_module('simdc.checks.%s' % pid.lower())


# --------------------------------------------------------------------------
# worker side

def _init_worker():
    os.environ.setdefault('DISKCACHE_VERIF', '1')


def library_exception(pid, exc):
    """An exception that escapes a check's own handling and was RAISED INSIDE the library under test (innermost frame in
    the diskcache package) is behaviour of the code, not of the harness: report it as a violation with a replay.  On the
    unchanged tree no case does this (it would have been a harness error before this rule existed)."""
    from . import seams
    if seams.dc is None:
        return None
    root = os.path.dirname(os.path.abspath(seams.dc.__file__))
    proxy = os.path.abspath(seams.__file__)
    tb = exc.__traceback__
    last = None         # deepest frame inside the library ...
    below_ok = True     # ... with nothing but the seam proxies (which act for the library) and the standard library below it
    while tb is not None:
        fn = os.path.abspath(tb.tb_frame.f_code.co_filename)
        if fn.startswith(root + os.sep):
            last, below_ok = tb, True
        elif last is not None and fn != proxy and os.sep + 'simdc' + os.sep in fn:
            below_ok = False
        tb = tb.tb_next
    if last is None or not below_ok:
        return None
    fn = last.tb_frame.f_code.co_filename
    if isinstance(exc, (KeyboardInterrupt, SystemExit, MemoryError)):
        return None
    where = '%s:%s' % (os.path.basename(fn), last.tb_frame.f_code.co_name)
    return {'rule': '%s/library-exception-escaped' % pid, 'sig': '%s@%s' % (type(exc).__name__, where),
            'detail': '%s: %s raised in %s line %d outside any call the check compares' % (
                type(exc).__name__, str(exc)[:120], where, last.tb_lineno)}


def alt_environment(case):
    """One case in ~200 runs in a child interpreter whose ENVIRONMENT differs from the usual one in a way a deployment may
    differ: started with -O (assert statements are not executed), under the C locale without UTF-8 mode (the default
    text encoding is ASCII), or with the warning filters set to ignore / to raise (-W ignore, -W error::UserWarning).  The choice is a function of the case's seed (or stated in case['_env']), so replays, shrunk
    cases and witnesses run the same way."""
    if not isinstance(case, dict):
        return None
    if '_env' in case:
        return case['_env'] or None
    seed = case.get('seed')
    if isinstance(seed, int) and seed % 199 == 11:
        return ('clocale', 'opt', 'wignore', 'werror')[(seed // 199) % 4]
    return None


ENV_TEXT = {'opt': 'python -O', 'clocale': 'LC_ALL=C, no UTF-8 mode', 'wignore': 'python -W ignore',
            'werror': 'python -W error::UserWarning'}


def run_in_child(pid, case, mode):
    env = dict(os.environ, PYTHONHASHSEED='0', DISKCACHE_VERIF='1', PYTHONDONTWRITEBYTECODE='1', VERIF_CHILD_ENV=mode)
    cmd = [sys.executable]
    if mode == 'opt':
        cmd.append('-O')
    elif mode == 'wignore':
        # a deployment that silences warnings (PYTHONWARNINGS=ignore) ...
        cmd += ['-W', 'ignore']
    elif mode == 'werror':
        # ... and one that turns them into errors
        cmd += ['-W', 'error::UserWarning']
    else:
        env.update(LC_ALL='C', PYTHONUTF8='0', PYTHONCOERCECLOCALE='0')
        env.pop('LANG', None)
    cmd += ['-B', os.path.join(VERIF, 'vcheck'), 'runcase', pid]
    p = subprocess.run(cmd, input=json.dumps(case), capture_output=True, text=True, env=env, timeout=600)
    if p.returncode != 0 or not p.stdout.strip():
        raise RuntimeError('child interpreter (%s) failed: %s' % (mode, (p.stderr or p.stdout)[-800:]))
    res = json.loads(p.stdout.strip().splitlines()[-1])
    res.setdefault('probes', {})['ran_in_child_' + mode] = 1
    for v in res.get('violations', ()):
        v['detail'] = '[interpreter environment: %s] %s' % (ENV_TEXT.get(mode, mode), v.get('detail'))
    return res


def guarded(pid, run_case, case):
    """run_case(case), with an exception raised inside the library turned into a violation of the case."""
    mode = alt_environment(case)
    if mode and os.environ.get('VERIF_CHILD_ENV') != mode:
        return run_in_child(pid, case, mode)
    try:
        return run_case(case)
    except BaseException as exc:  # noqa
        vio = library_exception(pid, exc)
        if vio is None:
            raise
        try:
            from . import seams
            if seams.ACTIVE is not None:
                seams.deactivate()
        except Exception:
            pass
        return {'violations': [vio], 'digest': None, 'steps': 0, 'switches': 0, 'fired': {}, 'probes': {}, 'virtual_s': 0.0,
                'nontrivial': True, 'outcome': {'escaped': vio['sig']}}


def work(pid, seeds, tier, want_samples):
    """Run a batch of seeds; returns a list of compact result dicts."""
    faulthandler.dump_traceback_later(300, exit=True)
    out = []
    try:
        mod = check_module(pid)
        for seed in seeds:
            t0 = time.time()
            try:
                if hasattr(mod, 'run_seed'):
                    results = mod.run_seed(seed, tier)
                else:
                    case = mod.gen_case(seed, tier)
                    res = guarded(pid, mod.run_case, case)
                    res['case'] = case
                    results = [res]
            except BaseException:  # harness problem, never a violation
                out.append({'seed': seed, 'harness_error': traceback.format_exc()})
                continue
            for res in results:
                res['seed'] = seed
                res['wall'] = time.time() - t0
                keep_case = bool(res.get('violations')) or seed in want_samples
                if not keep_case:
                    res.pop('case', None)
                out.append(res)
    finally:
        faulthandler.cancel_dump_traceback_later()
    return out


# --------------------------------------------------------------------------
# known findings

def load_known():
    """Parse known_findings.txt -> list of dicts (status known|fixed)."""
    items = []
    if not os.path.exists(KNOWN_FILE):
        return items
    for line in open(KNOWN_FILE, encoding='utf-8'):
        line = line.rstrip('\n')
        if not line or line.startswith('#'):
            continue
        if line.startswith('known:'):
            head, _, what = line[6:].partition(' :: ')
            d = {'status': 'known', 'what': what.strip()}
            for tok in head.split():
                k, _, v = tok.partition('=')
                d[k] = v
            items.append(d)
        elif line.startswith('fixed:'):
            toks = line[6:].split(None, 2)
            d = {'status': 'fixed', 'property': toks[0].partition('=')[2], 'commit': toks[1],
                 'what': toks[2] if len(toks) > 2 else ''}
            items.append(d)
    return items


def known_for(pid):
    return [k for k in load_known() if k['status'] == 'known' and k.get('property') == pid]


def vio_key(v):
    return '%s: %s' % (v['rule'], v['sig'])


def is_known(v, known):
    key = vio_key(v)
    for k in known:
        if re.search(k['signature'], key):
            return k
    return None


# --------------------------------------------------------------------------
# shrinking (generic over the case layout used by the checks)

def _drop_op(case, task, idx):
    c = copy.deepcopy(case)
    prog = c['progs'][task]
    del prog[idx]
    faults = []
    for f in c.get('faults', []):
        if f.get('task') == task and 'op' in f:
            if f['op'] == idx:
                continue
            if f['op'] > idx:
                f = dict(f, op=f['op'] - 1)
        faults.append(f)
    if 'faults' in c:
        c['faults'] = faults
    return c


def generic_candidates(case):
    """Yield smaller variants of a case (clients, ops, block bodies, faults)."""
    progs = case.get('progs')
    if isinstance(progs, dict):
        if len(progs) > 1:
            for name in list(progs):
                if any(f.get('task') == name for f in case.get('faults', [])):
                    continue
                c = copy.deepcopy(case)
                del c['progs'][name]
                yield c
        for name, prog in progs.items():
            n = len(prog)
            chunk = n // 2
            while chunk >= 2:
                for start in range(0, n, chunk):
                    c = case
                    ok = True
                    for idx in reversed(range(start, min(n, start + chunk))):
                        c = _drop_op(c, name, idx)
                    if ok:
                        yield c
                chunk //= 2
            for idx in reversed(range(n)):
                yield _drop_op(case, name, idx)
            for idx, op in enumerate(prog):
                if isinstance(op, dict) and op.get('op') == 'txn':
                    body = op['body']
                    for j in reversed(range(len(body))):
                        c = copy.deepcopy(case)
                        sub = c['progs'][name][idx]
                        del sub['body'][j]
                        ra = sub.get('raise_at')
                        if ra is not None and ra > j:
                            sub['raise_at'] = ra - 1
                        yield c
    faults = case.get('faults')
    if faults:
        for i in range(len(faults)):
            c = copy.deepcopy(case)
            del c['faults'][i]
            yield c


def shrink(mod, case, target, budget_s=60.0, log=None):
    """Greedy delta debugging: keep a candidate only if the same rule fires."""
    t0 = time.time()
    cand_fn = getattr(mod, 'shrink_candidates', None) or generic_candidates
    best = case
    runs = 0
    improved = True
    while improved and time.time() - t0 < budget_s:
        improved = False
        for cand in cand_fn(best):
            if time.time() - t0 > budget_s:
                break
            runs += 1
            try:
                res = guarded(mod.PROPERTY, mod.run_case, copy.deepcopy(cand))
            except Exception:
                continue
            if any(v['rule'] == target['rule'] and v['sig'] == target['sig'] for v in res.get('violations', ())):
                best = cand
                improved = True
                break
    if log:
        log('shrink: %d candidate runs in %.1fs' % (runs, time.time() - t0))
    return best


# --------------------------------------------------------------------------
# replay

def write_replay(pid, case, vio, digest, seed, extra=None):
    os.makedirs(os.path.join(VERIF, 'replays'), exist_ok=True)
    path = os.path.join(VERIF, 'replays', '%s-%s.json' % (pid, seed))
    doc = {'property': pid, 'seed': seed, 'expect': {'rule': vio['rule'], 'sig': vio['sig']},
           'detail': vio.get('detail'), 'digest': digest, 'case': case}
    if extra:
        doc.update(extra)
    with open(path, 'w') as fh:
        json.dump(doc, fh, indent=1, sort_keys=True)
    return path


def replay_file(path, quiet=False):
    """Run a replay file in this interpreter.  Returns (reproduced, result)."""
    doc = json.load(open(path))
    mod = check_module(doc['property'])
    res = guarded(mod.PROPERTY, mod.run_case, copy.deepcopy(doc['case']))
    exp = doc['expect']
    hit = [v for v in res.get('violations', ()) if v['rule'] == exp['rule'] and v['sig'] == exp['sig']]
    if not quiet:
        for v in res.get('violations', ()):
            print('  violation %s | %s' % (vio_key(v), v.get('detail')))
        same = (res.get('digest') == doc.get('digest'))
        print('%s property=%s expect=%s digest_match=%s' % (
            'REPRODUCED' if hit else 'NOT-REPRODUCED', doc['property'], vio_key(exp), same))
    return bool(hit), res


def replay_fresh(path, search=0):
    """Replay in a fresh interpreter; True if the violation reproduces.
    search > 0 (witnesses of known findings only): if the exact replay does
    not fail any more - the seam sequence shifts whenever /repo changes - the
    same programs are re-run under up to `search` other schedule seeds."""
    env = dict(os.environ, PYTHONHASHSEED='0', DISKCACHE_VERIF='1')
    cmd = [sys.executable, '-B', os.path.join(VERIF, 'vcheck'), 'replay', path]
    if search:
        cmd += ['--search', str(search)]
    p = subprocess.run(cmd, env=env, capture_output=True, text=True, timeout=900)
    ok = p.returncode == 1 and '\nREPRODUCED' in '\n' + p.stdout and (search or 'digest_match=True' in p.stdout)
    return ok, p.stdout + p.stderr


def replay_search(path, n):
    """Witness scenario under other schedule seeds (same programs, faults, configuration)."""
    doc = json.load(open(path))
    mod = check_module(doc['property'])
    exp = doc['expect']
    for s in range(n):
        case = copy.deepcopy(doc['case'])
        case['seed'] = 7000000 + s
        try:
            res = guarded(mod.PROPERTY, mod.run_case, case)
        except Exception:
            continue
        if any(v['rule'] == exp['rule'] and v['sig'] == exp['sig'] for v in res.get('violations', ())):
            print('REPRODUCED property=%s expect=%s via-search schedule_seed=%d' % (doc['property'], vio_key(exp), case['seed']))
            return True
    print('NOT-REPRODUCED property=%s expect=%s (exact replay and %d other schedule seeds)' % (doc['property'], vio_key(exp), n))
    return False


# --------------------------------------------------------------------------
# main loop

def _budget(tier, mod):
    env = os.environ.get('VERIF_BUDGET_S')
    if env:
        return float(env)
    if tier == 'thorough':
        return float(getattr(mod, 'THOROUGH_S', 420))
    return float(getattr(mod, 'QUICK_S', 30))


def run_check(pid, tier):
    t_start = time.time()
    mod = check_module(pid)
    base_seed = int(os.environ.get('VERIF_SEED', '0') or 0)
    workers = int(os.environ.get('VERIF_WORKERS', '16'))
    budget = _budget(tier, mod)
    batch = int(getattr(mod, 'BATCH', 8))
    min_runs = int(getattr(mod, 'MIN_RUNS', 16))
    known = known_for(pid)
    out = print

    # 1. witnesses of known findings
    known_lines = []
    for k in known:
        w = k.get('witness')
        if not w:
            continue
        wpath = os.path.join(VERIF, w)
        ok, txt = replay_fresh(wpath, search=600)
        if ok:
            known_lines.append('KNOWN-FINDING: property=%s %s (%s; witness %s)' % (pid, k['what'], k.get('id', ''), w))
        else:
            out('note: witness %s of known finding %s no longer reproduces' % (w, k.get('id')))
    for line in known_lines:
        out(line)

    # 2. seeded exploration on the pool
    agg = {'evaluations': 0, 'steps': 0, 'switches': 0, 'virtual_s': 0.0, 'fired': {}, 'probes': {},
           'digests': set(), 'nontrivial': 0, 'known_hits': 0, 'harness_errors': [], 'samples': [],
           'violations': [], 'seeds': 0, 'extra': {}}
    want_samples = {base_seed * 1000003 + i for i in range(3)}
    ctx = multiprocessing.get_context('fork')
    next_i = 0
    stop = False
    pool = cf.ProcessPoolExecutor(max_workers=workers, mp_context=ctx, initializer=_init_worker)
    pending = set()
    try:
        def submit():
            nonlocal next_i
            seeds = [base_seed * 1000003 + i for i in range(next_i, next_i + batch)]
            next_i += batch
            pending.add(pool.submit(work, pid, seeds, tier, want_samples))

        deadline = t_start + budget
        max_runs = int(os.environ.get('VERIF_MAX_RUNS', '0') or 0)
        while True:
            while (not stop and len(pending) < workers * 2
                   and (time.time() < deadline or next_i < min_runs)
                   and (not max_runs or next_i < max_runs)):
                submit()
            if not pending:
                break
            done, _ = cf.wait(pending, timeout=600, return_when=cf.FIRST_COMPLETED)
            if not done:
                agg['harness_errors'].append('batch did not finish within 600 s')
                break
            for fut in done:
                pending.discard(fut)
                try:
                    results = fut.result()
                except BaseException as exc:  # broken pool etc.
                    agg['harness_errors'].append('worker failed: %r' % (exc,))
                    stop = True
                    continue
                for res in results:
                    _aggregate(agg, res, known, mod)
                if agg['violations'] or agg['harness_errors']:
                    stop = True
    finally:
        for fut in pending:
            fut.cancel()
        pool.shutdown(wait=True, cancel_futures=True)

    # 3. verdict
    status = 0
    vio_lines = []
    if agg['harness_errors']:
        status = 2
    elif agg['violations']:
        agg['violations'].sort(key=lambda r: r['seed'])
        first = agg['violations'][0]
        vio = first['vio']
        case = first['case']
        out('violation found at seed %s: %s | %s' % (first['seed'], vio_key(vio), vio.get('detail')))
        os.environ.setdefault('DISKCACHE_VERIF', '1')
        small = shrink(mod, case, vio, budget_s=float(os.environ.get('VERIF_SHRINK_S', '60')), log=out)
        res = guarded(mod.PROPERTY, mod.run_case, copy.deepcopy(small))
        hit = [v for v in res.get('violations', ()) if v['rule'] == vio['rule'] and v['sig'] == vio['sig']]
        if not hit:
            small = case
            res = guarded(mod.PROPERTY, mod.run_case, copy.deepcopy(small))
            hit = [v for v in res.get('violations', ()) if v['rule'] == vio['rule'] and v['sig'] == vio['sig']]
        if not hit:
            agg['harness_errors'].append('violation at seed %s did not reproduce in the parent process: %s'
                                         % (first['seed'], vio_key(vio)))
            status = 2
        else:
            path = write_replay(pid, small, hit[0], res.get('digest'), first['seed'],
                                {'schedule': res.get('picks'), 'fired': res.get('fired')})
            ok, txt = replay_fresh(path)
            if not ok:
                agg['harness_errors'].append('replay %s did not reproduce in a fresh interpreter:\n%s' % (path, txt[-2000:]))
                status = 2
            else:
                vio_lines.append('VIOLATION property=%s replay=%s' % (pid, path))
                out('  rule: %s' % vio_key(hit[0]))
                out('  detail: %s' % (hit[0].get('detail'),))
                status = 1

    wall = time.time() - t_start
    _write_evidence(pid, tier, base_seed, mod, agg, wall, len(vio_lines), known_lines)
    rate = agg['evaluations'] / wall * 3600 if wall > 0 else 0
    out('%s %s: %d runs (%d seeds), %d distinct non-trivial, %d steps, %.0f virtual s, %.0f runs/h, fired=%s, known-hits=%d, wall %.1fs'
        % (pid, tier, agg['evaluations'], agg['seeds'], len(agg['digests']), agg['steps'], agg['virtual_s'], rate,
           json.dumps(agg['fired'], sort_keys=True), agg['known_hits'], wall))
    zero = [p for p in getattr(mod, 'PROBES', ()) if not agg['probes'].get(p)]
    if zero and tier == 'thorough':
        out('warning: reach probes stuck at zero: %s' % ', '.join(zero))
    for err in agg['harness_errors'][:3]:
        out('HARNESS-ERROR property=%s %s' % (pid, err))
    if len(agg['harness_errors']) > 3:
        out('HARNESS-ERROR property=%s ... and %d more harness errors' % (pid, len(agg['harness_errors']) - 3))
    for line in vio_lines:
        out(line)
    return status


def _aggregate(agg, res, known, mod):
    if 'harness_error' in res:
        agg['harness_errors'].append('seed %s: %s' % (res['seed'], res['harness_error'][-1500:]))
        return
    agg['evaluations'] += 1
    agg['steps'] += res.get('steps', 0)
    agg['switches'] += res.get('switches', 0)
    agg['virtual_s'] += res.get('virtual_s', 0.0)
    for k, v in (res.get('fired') or {}).items():
        agg['fired'][k] = agg['fired'].get(k, 0) + v
    for k, v in (res.get('probes') or {}).items():
        agg['probes'][k] = agg['probes'].get(k, 0) + v
    for k, v in (res.get('extra') or {}).items():
        agg['extra'][k] = agg['extra'].get(k, 0) + v
    if res.get('nontrivial'):
        agg['digests'].add(res.get('digest'))
    if res.get('first_of_seed', True):
        agg['seeds'] += 1
    if res.get('case') is not None and len(agg['samples']) < 3 and not res.get('violations'):
        agg['samples'].append({'seed': res['seed'], 'case': _trim(res['case']), 'outcome': res.get('outcome'),
                               'steps': res.get('steps'), 'fired': res.get('fired')})
    for v in res.get('violations') or ():
        k = is_known(v, known)
        if k is not None:
            agg['known_hits'] += 1
            continue
        agg['violations'].append({'seed': res['seed'], 'vio': v, 'case': res.get('case')})


def _trim(obj, depth=0):
    """Keep samples readable: cap list lengths and string sizes."""
    if isinstance(obj, dict):
        return {k: _trim(v, depth + 1) for k, v in obj.items()}
    if isinstance(obj, list):
        if len(obj) > 40:
            return [_trim(x, depth + 1) for x in obj[:40]] + ['... %d more' % (len(obj) - 40)]
        return [_trim(x, depth + 1) for x in obj]
    if isinstance(obj, str) and len(obj) > 200:
        return obj[:200] + '...'
    return obj


def _write_evidence(pid, tier, seed, mod, agg, wall, n_vio, known_lines):
    os.makedirs(os.path.join(VERIF, 'evidence'), exist_ok=True)
    rate = agg['evaluations'] / wall * 3600 if wall > 0 else 0.0
    cov = {
        'evaluations': agg['evaluations'],
        'distinct_nontrivial': len(agg['digests']),
        'rule': getattr(mod, 'RULE', ''),
        'samples': agg['samples'] or [{'note': 'no sample retained'}],
        'seeds_run': agg['seeds'],
        'runs_per_hour': round(rate),
        'scheduler_steps': agg['steps'],
        'context_switches': agg['switches'],
        'virtual_time_covered_s': round(agg['virtual_s'], 3),
        'faults_fired': dict(sorted(agg['fired'].items())),
        'reach_probes': dict(sorted(agg['probes'].items())),
        'known_finding_hits_in_exploration': agg['known_hits'],
        'known_findings_reproduced': known_lines,
        'components': COMPONENTS,
        'harness_errors': len(agg['harness_errors']),
    }
    cov.update({k: v for k, v in sorted(agg['extra'].items())})
    doc = {
        'property_id': pid,
        'tier': tier if tier in ('quick', 'thorough') else 'quick',
        'seed': seed,
        'level': getattr(mod, 'LEVEL', 'exploration'),
        'coverage': cov,
        'assumptions': list(getattr(mod, 'ASSUMPTIONS', ())) + [
            'SQLite and the file system behave as specified (real libraries; not fault-injected below the seams)',
            'sampling, not enumeration: a clean batch is evidence, not proof'],
        'wall_s': round(wall, 2),
        'violations': n_vio,
    }
    path = os.path.join(VERIF, 'evidence', '%s.json' % pid)
    with open(path, 'w') as fh:
        json.dump(doc, fh, indent=1, sort_keys=True)
