"""Client operations: JSON-able op descriptions executed against the real
diskcache objects, with results normalised to stable fingerprints.

A result is ('ok', fingerprint) or ('exc', ExceptionTypeName).  Fingerprints
of values are short strings: small values by their encoded form, large ones by
type, length and a hash, so that a partial or mixed value matches nothing that
was written."""
import hashlib
import io
import json
import pickle

from . import vals
from .kernel import Killed, Aborted


def fp(obj):
    """Fingerprint of a Python value (type-and-structure sensitive)."""
    t = type(obj)
    if t is bytes:
        if len(obj) <= 24:
            return 'b:' + obj.hex()
        return 'B%d:%s' % (len(obj), hashlib.sha1(obj).hexdigest()[:12])
    if t is str:
        if len(obj) <= 24:
            return 's:' + obj.encode('utf-8', 'surrogatepass').hex()
        return 'S%d:%s' % (len(obj), hashlib.sha1(obj.encode('utf-8', 'surrogatepass')).hexdigest()[:12])
    if obj is None or t is bool:
        return repr(obj)
    if t is int:
        return 'i:%d' % obj
    if t is float:
        return 'f:' + repr(obj)
    if t is tuple:
        return 't(' + ','.join(fp(x) for x in obj) + ')'
    if t is list:
        inner = ','.join(fp(x) for x in obj)
        if len(inner) > 64:
            inner = '%d:%s' % (len(obj), hashlib.sha1(inner.encode()).hexdigest()[:12])
        return 'l(' + inner + ')'
    if t is dict:
        inner = ','.join(fp(k) + '=' + fp(v) for k, v in obj.items())
        if len(inner) > 64:
            inner = '%d:%s' % (len(obj), hashlib.sha1(inner.encode()).hexdigest()[:12])
        return 'd(' + inner + ')'
    if t is frozenset:
        return 'fs(' + ','.join(sorted(fp(x) for x in obj)) + ')'
    return 'o:%s:%s' % (t.__name__, hashlib.sha1(repr(obj).encode('utf-8', 'backslashreplace')).hexdigest()[:12])


_FP_CACHE = {}


def fp_spec(spec):
    """Fingerprint of the value a spec describes (cached)."""
    key = json.dumps(spec, sort_keys=True) if isinstance(spec, (dict, list)) else ('%s:%r' % (type(spec).__name__, spec))
    got = _FP_CACHE.get(key)
    if got is None:
        got = _FP_CACHE[key] = fp(vals.dec(spec))
        if len(_FP_CACHE) > 5000:
            _FP_CACHE.clear()
    return got


class StreamInterrupt(BaseException):
    """What interrupts a slow read without being an Exception: KeyboardInterrupt, SystemExit from a signal handler, a
    timeout of a cooperative scheduler.  The caller survives it and goes on using the cache."""


class SimStream:
    """Binary source for set(read=True): seeded short reads, optional error."""

    def __init__(self, data, rng, fail_after=None, fail_kind=None):
        self.data = data
        self.pos = 0
        self.rng = rng
        self.fail_after = fail_after
        self.fail_kind = fail_kind
        self.short_reads = 0

    def read(self, n=-1):
        if self.fail_after is not None and self.pos >= self.fail_after:
            if self.fail_kind == 'base':
                raise StreamInterrupt('interrupted while reading the source')
            raise OSError(5, 'Input/output error (injected stream error)')
        if n is None or n < 0:
            n = len(self.data) - self.pos
        left = len(self.data) - self.pos
        if left <= 0:
            return b''
        take = min(n, left)
        if self.rng is not None and take > 1 and self.rng.random() < 0.7:
            take = self.rng.randrange(1, take + 1)
            self.short_reads += 1
        if self.fail_after is not None:
            take = min(take, max(1, self.fail_after - self.pos))
        out = self.data[self.pos:self.pos + take]
        self.pos += take
        return out


class BlockAbort(Exception):
    """Raised by the harness inside a transaction block to abort it."""


class BlockAbortBase(BaseException):
    """Same, but not an Exception subclass (as KeyboardInterrupt, SystemExit or
    GeneratorExit are): a block must roll back for these too."""


def exc_name(exc):
    return type(exc).__name__


def run_op(target, op, ctx=None):
    """Execute one op on `target`; return ('ok', fp) or ('exc', name[, arg])."""
    try:
        return ('ok', _do(target, op, ctx))
    except (Killed, Aborted):
        raise
    except (BlockAbort, BlockAbortBase):
        raise
    except StreamInterrupt:
        return ('exc', 'StreamInterrupt')
    except Exception as exc:  # noqa
        name = exc_name(exc)
        if name == 'Timeout' and exc.args:
            return ('exc', name, exc.args[0])
        return ('exc', name)


def _value(op, ctx):
    v = vals.dec(op['v'])
    if op.get('read'):
        data = v if isinstance(v, bytes) else pickle.dumps(v)
        rng = ctx.get('stream_rng') if ctx else None
        return SimStream(data, rng, op.get('stream_fail'), op.get('stream_fail_kind'))
    return v


def _kw(op, names):
    out = {}
    for n in names:
        if n in op:
            out[n] = vals.dec(op[n]) if n == 'tag' else op[n]
    return out


def _do(c, op, ctx):
    name = op['op']
    if name == 'set':
        return fp(c.set(vals.dec(op['k']), _value(op, ctx), **_kw(op, ('expire', 'tag', 'read', 'retry'))))
    if name == 'setitem':
        c[vals.dec(op['k'])] = _value(op, ctx)
        return 'None'
    if name == 'add':
        return fp(c.add(vals.dec(op['k']), _value(op, ctx), **_kw(op, ('expire', 'tag', 'read', 'retry'))))
    if name == 'get':
        kw = _kw(op, ('expire_time', 'tag', 'retry'))
        if 'default' in op:
            kw['default'] = vals.dec(op['default'])
        return fp(c.get(vals.dec(op['k']), **kw))
    if name == 'getitem':
        return fp(c[vals.dec(op['k'])])
    if name == 'read':
        handle = c.read(vals.dec(op['k']))
        if hasattr(handle, 'read'):
            with handle:
                return fp(handle.read())
        return fp(handle)
    if name == 'contains':
        return fp(vals.dec(op['k']) in c)
    if name == 'touch':
        return fp(c.touch(vals.dec(op['k']), **_kw(op, ('expire', 'retry'))))
    if name == 'incr':
        kw = _kw(op, ('delta', 'retry'))
        if 'default' in op:
            kw['default'] = op['default']
        return fp(c.incr(vals.dec(op['k']), **kw))
    if name == 'decr':
        kw = _kw(op, ('delta', 'retry'))
        if 'default' in op:
            kw['default'] = op['default']
        return fp(c.decr(vals.dec(op['k']), **kw))
    if name == 'pop':
        kw = _kw(op, ('expire_time', 'tag', 'retry'))
        if 'default' in op:
            kw['default'] = vals.dec(op['default'])
        return fp(c.pop(vals.dec(op['k']), **kw))
    if name == 'delete':
        return fp(c.delete(vals.dec(op['k']), **_kw(op, ('retry',))))
    if name == 'delitem':
        del c[vals.dec(op['k'])]
        return 'None'
    if name == 'clear':
        return fp(c.clear(**_kw(op, ('retry',))))
    if name == 'evict':
        return fp(c.evict(vals.dec(op['tag']), **_kw(op, ('retry',))))
    if name == 'expire':
        if op.get('now_shift') is not None:
            from . import seams
            return fp(c.expire(now=seams.SIM_TIME.time() + op['now_shift'], **_kw(op, ('retry',))))
        return fp(c.expire(**_kw(op, ('retry',))))
    if name == 'cull':
        return fp(c.cull(**_kw(op, ('retry',))))
    if name == 'len':
        return fp(len(c))
    if name == 'volume':
        return fp(c.volume() >= 0)
    if name == 'iter':
        return 'keys:' + json.dumps([fp(k) for k in c])
    if name == 'reversed':
        return 'keys:' + json.dumps([fp(k) for k in reversed(c)])
    if name == 'iter_mixed':
        # a loop over the cache whose body calls the cache again (the usual way of using an iterator): take some keys, make a
        # call that waits for the write lock if it has to, go on iterating
        it = iter(c) if not op.get('reverse') else reversed(c)
        keys = []
        for k in it:
            keys.append(fp(k))
            if len(keys) == op['take']:
                inner = run_op(c, op['then'], ctx)
                if inner[0] != 'ok':
                    raise RuntimeError('call inside the loop failed: %r' % (inner,))
        return 'keys:' + json.dumps(keys)
    if name == 'iterkeys':
        return 'keys:' + json.dumps([fp(k) for k in c.iterkeys(reverse=op.get('reverse', False))])
    if name == 'peekitem':
        return fp(c.peekitem(**_kw(op, ('last', 'expire_time', 'tag', 'retry'))))
    if name == 'stats':
        return fp(c.stats(**_kw(op, ('enable', 'reset'))))
    if name == 'push':
        return fp(c.push(_value(op, ctx), **_kw(op, ('prefix', 'side', 'expire', 'tag', 'read', 'retry'))))
    if name == 'pull':
        return fp(c.pull(**_kw(op, ('prefix', 'side', 'expire_time', 'tag', 'retry'))))
    if name == 'peek':
        return fp(c.peek(**_kw(op, ('prefix', 'side', 'expire_time', 'tag', 'retry'))))
    if name == 'keys':
        return fp([fp(k) for k in c.keys()])
    if name == 'eqdict':
        # comparison with a plain mapping (reads only)
        target = c
        return fp([target == {'zz-not-there': 1}, target != {}])
    if name == 'get_many':
        # Django's multi-key lookup (BaseCache.get_many unless the backend brings its own)
        return fp(sorted((repr(k), fp(v)) for k, v in c.get_many([vals.dec(k) for k in op['ks']]).items()))
    if name == 'has_key':
        return fp(c.has_key(vals.dec(op['k'])))
    if name == 'realfork':
        # the calling thread forks a child that exits at once (a worker started from inside the block); the parent goes on
        import os as _real_os
        pid = _real_os.fork()
        if pid == 0:
            _real_os._exit(0)
        _real_os.waitpid(pid, 0)
        return fp(None)
    if name == 'repolicy':
        # another handle (another process) changes the eviction policy of the directory; this handle reloads the setting
        # the documented way - reset(key) without a value - and from then on follows the new policy
        from . import seams
        other = seams.dc.Cache(c.directory)
        other.reset('eviction_policy', op['policy'])
        other.close()
        return fp(c.reset('eviction_policy'))
    if name == 'reset':
        # a settings update (bulk loads switch culling off this way); no part of the data, callable anywhere
        target = c.cache if hasattr(c, 'cache') and not hasattr(c, 'close') else c
        value = op['value']
        if value == 'volume':
            # "as full as it is now": the limit is put at the present volume (of the emptiest shard), so that the next write
            # finds the cache at its size limit - the normal state of a long-lived cache
            inner = getattr(target, '_cache', target)       # DjangoCache wraps a FanoutCache
            shards = getattr(inner, '_shards', None)
            value = min(s.volume() for s in shards) if shards else inner.volume()
            target = inner
            target.reset(op['key'], value)
            return fp(None)
        return fp(target.reset(op['key'], value))
    if name == 'open_settings':
        # another handle on the same directory, opened without arguments: what it finds are the stored settings
        from . import seams
        new = seams.dc.Cache(c.directory, timeout=c.timeout)
        try:
            return fp(sorted((k, getattr(new, k)) for k in seams.dc.DEFAULT_SETTINGS))
        finally:
            new.close()
    if name == 'close':
        # closes the calling thread's connection(s); the object stays usable (the tutorial and Django call it routinely)
        (c.cache if hasattr(c, 'cache') and not hasattr(c, 'close') else c).close()
        return 'None'
    if name == 'check':
        return fp(len(c.check(**_kw(op, ('fix', 'retry')))))
    if name == 'txn':
        return _txn(c, op, ctx)
    if name == 'sleep':
        from . import seams
        seams.SIM_TIME.sleep(op['dt'])
        return 'None'
    # Deque
    if name in ('append', 'appendleft'):
        getattr(c, name)(_value(op, ctx))
        return 'None'
    if name in ('dpop', 'dpopleft', 'dpeek', 'dpeekleft'):
        return fp(getattr(c, name[1:])())
    if name == 'dlist':
        return fp([fp(x) for x in c])
    if name in ('dextend', 'dextendleft'):
        getattr(c, name[1:])([vals.dec(x) for x in op['vs']])
        return 'None'
    if name == 'diadd':
        c += [vals.dec(x) for x in op['vs']]
        return 'None'
    if name == 'drotate':
        c.rotate(op['n'])
        return 'None'
    if name == 'dreverse':
        c.reverse()
        return 'None'
    if name == 'dclear':
        c.clear()
        return 'None'
    if name == 'dsetitem':
        c[op['i']] = _value(op, ctx)
        return 'None'
    if name == 'ddelitem':
        del c[op['i']]
        return 'None'
    if name == 'dremove':
        c.remove(_value(op, ctx))
        return 'None'
    if name == 'dmaxlen':
        c.maxlen = op['n']
        return 'None'
    if name == 'iupdate':
        c.update([(vals.dec(a), vals.dec(b)) for a, b in op['items']])
        return 'None'
    if name == 'iclear':
        c.clear()
        return 'None'
    # Index
    if name == 'setdefault':
        return fp(c.setdefault(vals.dec(op['k']), _value(op, ctx)))
    if name == 'popitem':
        return fp(c.popitem(last=op.get('last', True)))
    if name == 'ipop':
        if 'default' in op:
            return fp(c.pop(vals.dec(op['k']), vals.dec(op['default'])))
        return fp(c.pop(vals.dec(op['k'])))
    if name == 'items':
        return fp([(fp(k), fp(v)) for k, v in c.items()])
    # Averager
    if name == 'avg_add':
        c.add(vals.dec(op['v']))
        return 'None'
    if name == 'avg_get':
        return fp(c.get())
    if name == 'avg_pop':
        return fp(c.pop())
    # recipes on a Cache / FanoutCache target: one complete use of the primitive
    if name.startswith('r_'):
        return _recipe(c, op)
    raise ValueError('unknown op %r' % (name,))


def _recipe(c, op):
    from . import seams
    dc = seams.dc
    name = op['op']
    if name == 'r_lock':
        lock = dc.Lock(c, 'r-lock')
        with lock:
            held = lock.locked()
        return fp([held, lock.locked()])
    if name == 'r_rlock':
        lock = dc.RLock(c, 'r-rlock')
        with lock:
            with lock:
                pass
        return fp(c.get('r-rlock', retry=True)[1])
    if name == 'r_sem':
        sem = dc.BoundedSemaphore(c, 'r-sem', value=2)
        with sem:
            inside = c.get('r-sem', retry=True)
        return fp([inside, c.get('r-sem', retry=True)])
    if name == 'r_avg_add':
        avg = dc.Averager(c, 'r-avg')
        avg.add(vals.dec(op['v']))
        return fp(avg.get())
    if name == 'r_avg_pop':
        return fp(dc.Averager(c, 'r-avg').pop())
    if name == 'r_memo':
        calls = []

        def double(x):
            calls.append(x)
            return x * 2
        double.__module__, double.__qualname__ = 'recipes', 'double'
        fn = c.memoize(name='r-memo')(double)
        return fp([fn(op.get('x', 21)), fn(op.get('x', 21)), len(calls)])
    if name == 'r_stampede':
        calls = []

        def triple(x):
            calls.append(x)
            return x * 3
        fn = dc.memoize_stampede(c, 1000, name='r-stampede')(triple)
        return fp([fn(op.get('x', 7)), fn(op.get('x', 7)), len(calls)])
    if name == 'r_throttle':
        seen = []
        fn = dc.throttle(c, 2, 1, name='r-throttle', time_func=seams.SIM_TIME.time, sleep_func=seams.SIM_TIME.sleep)(lambda: seen.append(1))
        fn()
        return fp(len(seen))
    if name == 'r_barrier':
        seen = []
        fn = dc.barrier(c, dc.Lock, name='r-barrier')(lambda: seen.append(1) or 'done')
        return fp([fn(), len(seen), 'r-barrier' in c])
    raise ValueError('unknown recipe op %r' % (name,))


def _txn(c, op, ctx):
    """Transaction block: body ops, optional abort before body[raise_at]."""
    body = op['body']
    raise_at = op.get('raise_at')
    results = []
    kw = {}
    if 'retry' in op:
        kw['retry'] = op['retry']
    exc_type = BlockAbortBase if op.get('raise_kind') == 'base' else BlockAbort
    if op.get('style') == 'decorated':
        # the block as a function decorated ONCE with transact(...) that calls itself for every further step (a recursive
        # helper, mutually calling functions under one decorator object): the outermost call is the block
        deco = c.transact(**kw)

        @deco
        def level(i):
            if raise_at is not None and i == raise_at:
                raise exc_type()
            if i < len(body):
                results.append(run_op(c, body[i], ctx))
                level(i + 1)
            elif raise_at is not None and raise_at >= len(body):
                raise exc_type()
        try:
            level(0)
        except (BlockAbort, BlockAbortBase):
            return 'abort:' + json.dumps(results)
        return 'commit:' + json.dumps(results)
    try:
        with c.transact(**kw):
            for i, sub in enumerate(body):
                if raise_at is not None and i == raise_at:
                    raise exc_type()
                results.append(run_op(c, sub, ctx))
            if raise_at is not None and raise_at >= len(body):
                raise exc_type()
    except (BlockAbort, BlockAbortBase):
        return 'abort:' + json.dumps(results)
    return 'commit:' + json.dumps(results)
