"""Directory auditor, independent of Cache.check(): a raw sqlite3 connection
plus a directory walk (DESIGN.md 6.3).  Relies only on the released on-disk
format (table/column names, xx/yy/*.val)."""
import os
import sqlite3


def audit(directory, ignore_dirs=('tmp',)):
    """Return a sorted list of (kind, detail) inconsistencies at quiescence."""
    problems = []
    db = os.path.join(directory, 'cache.db')
    if not os.path.exists(db):
        return [('no-database', '')], [], {}
    con = sqlite3.connect(db, timeout=5)
    try:
        (count,), = con.execute('SELECT COUNT(*) FROM Cache').fetchall()
        (size,), = con.execute('SELECT COALESCE(SUM(size), 0) FROM Cache').fetchall()
        settings = dict(con.execute('SELECT key, value FROM Settings').fetchall())
        rows = con.execute('SELECT rowid, size, filename FROM Cache WHERE filename IS NOT NULL').fetchall()
        inline_sized = con.execute('SELECT COUNT(*) FROM Cache WHERE filename IS NULL AND size != 0').fetchall()[0][0]
        (integrity,), = con.execute('PRAGMA quick_check').fetchall()[:1]
    finally:
        con.close()
    if integrity != 'ok':
        problems.append(('db-integrity', str(integrity)[:60]))
    if settings.get('count') != count:
        problems.append(('count-mismatch', 'Settings.count=%s rows=%s' % (settings.get('count'), count)))
    if settings.get('size') != size:
        problems.append(('size-mismatch', 'Settings.size=%s sum=%s' % (settings.get('size'), size)))
    if inline_sized:
        problems.append(('inline-row-with-size', str(inline_sized)))
    named = set()
    for rowid, rsize, filename in rows:
        named.add(filename)
        full = os.path.join(directory, filename)
        if not os.path.exists(full):
            problems.append(('file-missing', filename))
        else:
            real = os.path.getsize(full)
            if real != rsize:
                problems.append(('file-size', '%s recorded=%s real=%s' % (filename, rsize, real)))
    empties = []
    for dirpath, dirs, files in os.walk(directory):
        rel = os.path.relpath(dirpath, directory)
        if rel != '.' and rel.split(os.sep)[0] in ignore_dirs:
            dirs[:] = []
            continue
        if rel == '.':
            dirs[:] = [d for d in dirs if d not in ignore_dirs]
        for name in files:
            relf = os.path.normpath(os.path.join(rel, name))
            if relf.startswith('cache.db'):
                continue
            if relf not in named:
                problems.append(('file-unknown', relf))
        if not dirs and not files and rel != '.':
            empties.append(rel)
    problems.sort()
    return problems, sorted(empties), {'rows': count, 'size': size, 'files': len(named)}


def listing(directory):
    """Sorted relative paths of all value files and directories (for
    'directory unchanged' comparisons; database files excluded)."""
    out = []
    for dirpath, dirs, files in os.walk(directory):
        rel = os.path.relpath(dirpath, directory)
        dirs.sort()
        for name in sorted(files):
            p = os.path.normpath(os.path.join(rel, name))
            if p.startswith('cache.db'):
                continue
            out.append((p, os.path.getsize(os.path.join(dirpath, name))))
        if rel != '.':
            out.append((rel + '/', -1))
    out.sort()
    return out


def check_messages(cache, **kw):
    """Run the library's own check() and return normalised messages."""
    msgs = []
    d = cache.directory
    for w in cache.check(**kw):
        m = str(w.message).replace(d, 'D')
        msgs.append(m)
    return sorted(msgs)
