"""JSON-able descriptions of Python keys and values used in generated
programs, replay files and histories.

spec forms:
  None / True / False / int (|x| < 2**53) / str (no lone surrogates issue: json escapes them)
  {"i": "<decimal>"}            big int
  {"f": "<repr>"}               float (nan, inf, -0.0 included)
  {"b": "<hex>"}                bytes
  {"t": [..]} {"l": [..]} {"fs": [..]} {"d": [[k, v], ..]}
  {"big": [kind, n, tag]}       deterministic large value: kind in bytes|str|pickle|crstr
  {"sub": [kind, spec]}         instance of a subclass of str | bytes | int | float (simdc.vals.StrSub ...)
"""
import math
import pickle


class StrSub(str):
    """Values that are instances of SUBCLASSES of the natively stored types: they come back as what they were."""
    def __repr__(self):
        return 'StrSub(%s)' % str.__repr__(self)


class BytesSub(bytes):
    def __repr__(self):
        return 'BytesSub(%s)' % bytes.__repr__(self)


class IntSub(int):
    def __repr__(self):
        return 'IntSub(%s)' % int.__repr__(self)


class FloatSub(float):
    def __repr__(self):
        return 'FloatSub(%s)' % float.__repr__(self)


class Rec:
    """A user-defined value whose pickling calls back into Python (__getstate__): under the simulator that is a point at
    which another client may run, as a thread switch or a re-entrant call may in real use."""

    def __init__(self, tag, pad=0):
        self.tag = tag
        self.pad = 'p' * pad

    def __getstate__(self):
        from . import seams
        s = seams.ACTIVE
        if s is not None and s.current is not None:
            s.seam('pickle', self.tag)
        return {'tag': self.tag, 'pad': self.pad}

    def __setstate__(self, state):
        self.__dict__.update(state)

    def __eq__(self, other):
        return type(other) is Rec and other.tag == self.tag and other.pad == self.pad

    def __hash__(self):
        return hash(('Rec', self.tag))

    def __repr__(self):
        return 'Rec(%r, %d)' % (self.tag, len(self.pad))


SUBS = {'str': (StrSub, str), 'bytes': (BytesSub, bytes), 'int': (IntSub, int), 'float': (FloatSub, float)}


def enc(obj):
    if obj is None or obj is True or obj is False:
        return obj
    t = type(obj)
    for kind, (cls, base) in SUBS.items():
        if t is cls:
            return {'sub': [kind, enc(base(obj))]}
    if t is Rec:
        return {'rec': [obj.tag, len(obj.pad)]}
    if t is int:
        return obj if abs(obj) < 2 ** 53 else {'i': str(obj)}
    if t is float:
        return {'f': repr(obj)}
    if t is str:
        return obj
    if t is bytes:
        return {'b': obj.hex()}
    if t is tuple:
        return {'t': [enc(x) for x in obj]}
    if t is list:
        return {'l': [enc(x) for x in obj]}
    if t is frozenset:
        return {'fs': sorted((enc(x) for x in obj), key=repr)}
    if t is dict:
        return {'d': [[enc(k), enc(v)] for k, v in obj.items()]}
    return {'repr': repr(obj)}


def big(kind, n, tag):
    tagb = ('<%s>' % tag).encode()
    if kind == 'bytes':
        reps = n // len(tagb) + 1
        return (tagb * reps)[:n]
    if kind == 'str':
        s = '<%s>' % tag
        return (s * (n // len(s) + 1))[:n]
    if kind == 'utf8':
        # text whose UTF-8 form mixes 1-, 2-, 3- and 4-byte characters: wherever a byte-sized block ends, it is likely to end
        # inside a character
        s = '<%s>\u20ac\u00e9\U0001d11e' % tag
        return (s * (n // len(s) + 1))[:n]
    if kind == 'crstr':
        s = '<%s>\r\n\r ' % tag
        return (s * (n // len(s) + 1))[:n]
    if kind == 'pickle':
        return {'tag': tag, 'pad': list(range(max(1, n // 3)))}
    raise ValueError(kind)


def dec(spec):
    if spec is None or spec is True or spec is False:
        return spec
    if isinstance(spec, (int, str)):
        return spec
    if isinstance(spec, float):
        return spec
    if isinstance(spec, list):
        return [dec(x) for x in spec]
    (k, v), = spec.items()
    if k == 'i':
        return int(v)
    if k == 'f':
        return float(v)
    if k == 'b':
        return bytes.fromhex(v)
    if k == 't':
        return tuple(dec(x) for x in v)
    if k == 'l':
        return [dec(x) for x in v]
    if k == 'fs':
        return frozenset(dec(x) for x in v)
    if k == 'd':
        return {dec(a): dec(b) for a, b in v}
    if k == 'big':
        return big(*v)
    if k == 'sub':
        return SUBS[v[0]][0](dec(v[1]))
    if k == 'rec':
        return Rec(v[0], v[1])
    if k == 'same':
        # a tuple whose members are one and the same object (f(lang, lang) with one variable)
        o = dec(v[0])
        return (o,) * v[1]
    if k == 'dist':
        # an equal tuple whose members are equal but distinct objects (each computed separately)
        return tuple(distinct_copy(dec(v[0])) for _ in range(v[1]))
    if k == 'pkl':
        import pickletools
        return pickletools.optimize(pickle.dumps(dec(v[0]), protocol=v[1]))
    raise ValueError(spec)


def distinct_copy(o):
    """An object equal to `o` and of its type that is not `o` (str / bytes of two or more items, non-empty tuples)."""
    if type(o) is str and len(o) > 1:
        c = ''.join([o[:1], o[1:]])
    elif type(o) is bytes and len(o) > 1:
        c = bytes(bytearray(o))
    elif type(o) is tuple and o:
        c = tuple(list(o))
    else:
        raise ValueError('no distinct copy of %r' % (o,))
    if c is o or c != o:
        raise ValueError('copy of %r is not distinct' % (o,))
    return c


def same(a, b):
    """Type-and-structure equality (NaN equals NaN, -0.0 differs from 0.0)."""
    ta, tb = type(a), type(b)
    if ta is not tb:
        return False
    if ta is float:
        if math.isnan(a) or math.isnan(b):
            return math.isnan(a) and math.isnan(b)
        return a == b and math.copysign(1.0, a) == math.copysign(1.0, b)
    if ta in (tuple, list):
        return len(a) == len(b) and all(same(x, y) for x, y in zip(a, b))
    if ta is dict:
        if len(a) != len(b):
            return False
        for (ka, va), (kb, vb) in zip(a.items(), b.items()):
            if not same(ka, kb) or not same(va, vb):
                return False
        return True
    if ta in (frozenset, set):
        return a == b and sorted(map(repr, a)) == sorted(map(repr, b))
    return a == b


def brief(obj, limit=60):
    """Stable short description of a value for logs and samples."""
    if isinstance(obj, (bytes, str)) and len(obj) > limit:
        return '%s[%d]:%r..' % (type(obj).__name__, len(obj), obj[:16])
    r = repr(obj)
    return r if len(r) <= limit else r[:limit] + '..'


def key_ident(key):
    """Documented key identity: str/bytes/int/float by Python equality with
    str != bytes; everything else by type and structure (its pickle)."""
    t = type(key)
    if t is str:
        return ('s', key)
    if t is bytes:
        return ('b', key)
    if t is int or t is float:
        if t is int and not -2 ** 63 <= key < 2 ** 63:
            return ('o', pickle.dumps(key, 2))
        if key != key:
            return ('nan',)
        if t is float and key.is_integer() and abs(key) < 2 ** 63:
            return ('n', int(key))
        return ('n', key)
    return ('o', repr(type(key)), pickle.dumps(key, 2))
