#!/bin/bash
# usage: seeded_eval.sh <name> <source worktree> "<property ids to run>"
# 1. keeps patch/demo/notes under /verif/seeded/<name>/  2. confirms the demonstration and the suite in a fresh scratch worktree
# 3. applies the patch to /repo, runs the checks, undoes it  4. writes meta.json
name=$1; src=$2; props=$3
dst=/verif/seeded/$name
mkdir -p $dst
[ "$src" != "$dst" ] && cp $src/patch.diff $dst/patch.diff
[ "$src" != "$dst" ] && cp $src/demo.py $dst/demo.py 2>/dev/null
[ "$src" != "$dst" ] && cp $src/NOTES.md $dst/NOTES.md 2>/dev/null
sv=/tmp/sv-$name
git -C /repo worktree remove --force $sv 2>/dev/null
git -C /repo worktree add -q --detach $sv HEAD
cp $dst/demo.py $sv/demo.py
(cd $sv && timeout 300 /venv/bin/python demo.py > $dst/demo_without.log 2>&1); d0=$?
git -C $sv apply $dst/patch.diff; ap=$?
(cd $sv && timeout 300 /venv/bin/python demo.py > $dst/demo_with.log 2>&1); d1=$?
(cd $sv && timeout 1500 /venv/bin/python -m pytest -q -p no:cacheprovider --timeout=900 > $dst/suite_with.log 2>&1); st=$?
suite=$(grep -E "passed|failed" $dst/suite_with.log | tail -1)
if echo "$suite" | grep -q failed; then
  # the two Django ORM tests collide on tests/db.sqlite3 under load: re-run failures alone
  (cd $sv && timeout 900 /venv/bin/python -m pytest -q -p no:cacheprovider -n 0 --timeout=900 -k model_instance --no-cov > $dst/suite_rerun.log 2>&1)
  suite="$suite | rerun of failures alone: $(grep -E 'passed|failed' $dst/suite_rerun.log | tail -1)"
fi
git -C /repo worktree remove --force $sv
# run the checks against /repo with the patch applied
cd /verif
git -C /repo apply $dst/patch.diff || { echo "patch does not apply to /repo"; exit 3; }
results=""
for p in $props; do
  VERIF_BUDGET_S=${SEEDED_BUDGET_S:-60} VERIF_SHRINK_S=15 ./vcheck check $p --tier quick > $dst/check_$p.log 2>&1; rc=$?
  rule=$(grep -E "^  rule:" $dst/check_$p.log | head -1 | sed 's/^  rule: //')
  if [ -f "$(grep -oE 'replay=[^ ]+' $dst/check_$p.log | head -1 | cut -d= -f2)" ]; then cp "$(grep -oE 'replay=[^ ]+' $dst/check_$p.log | head -1 | cut -d= -f2)" $dst/replay_$p.json; fi
  results="$results{\"check\": \"$p\", \"exit\": $rc, \"rule\": \"$(echo $rule | sed 's/"/\\"/g')\"},"
done
git -C /repo checkout -- .
rm -rf /verif/replays
git -C /verif checkout -- evidence 2>/dev/null
cat > $dst/meta.json <<M
{"name": "$name", "properties_run": "$props", "patch_applies": $([ $ap -eq 0 ] && echo true || echo false),
 "demo_exit_without_change": $d0, "demo_exit_with_change": $d1,
 "suite_with_change": "$(echo $suite | sed 's/"/\\"/g')",
 "checks": [${results%,}]}
M
cat $dst/meta.json
