"""Hand-written probes that reproduce the defects listed in DESIGN.md section 8
on the pinned tree.  Not part of the verification machinery: plain scripts
against the public API, kept so that every "failing input" in that table can
be re-run.  Usage:  /venv/bin/python /verif/design-notes/defect-probes.py
(set PYTHONPATH to a patched copy to see the repaired behaviour).
Scratch directories are created under /dev/shm (or the default temp dir) and
removed at exit."""
import atexit, glob, io, os, pickle, shutil, tempfile
import unittest.mock as mock

from diskcache import Cache, FanoutCache, Index, JSONDisk

_BASE = '/dev/shm' if os.path.isdir('/dev/shm') else None
_ROOT = tempfile.mkdtemp(prefix='dc-probes-', dir=_BASE)
atexit.register(shutil.rmtree, _ROOT, True)


def T():
    return tempfile.mkdtemp(dir=_ROOT)


def msgs(c, **kw):
    return [str(w.message).replace(c.directory, 'D')[:48] for w in c.check(**kw)]


big, big2 = b'x' * 40000, b'y' * 40000

# F1 / F2 (C01)
c = Cache(T())
s = 'a\r\nb\rc' * 10000
c['t'] = s
print('F1  text>=32KiB with CR round-trips:', c['t'] == s, len(c['t']), 'of', len(s))
c['nan'] = float('nan')
print('F2  NaN comes back as:', repr(c['nan']))

# F6 (C08): unencodable text after the file was created
try:
    c['sur'] = '\ud800' * 40000
except UnicodeEncodeError:
    print('F6  after failed store, check():', msgs(c))

# F3 (C04)
c = Cache(T(), cull_limit=0)
with mock.patch('time.time', return_value=1000.0):
    for i in range(250):
        c.set(i, i, expire=1)
print('F3  250 items, one expiry: expire() ->', c.expire(), 'left', len(c))
c.clear()
c.set('neg', 1, expire=-1e12)
print('F3  negative absolute expiry: expire() ->', c.expire(), 'left', len(c))

# F4 (C09)
c = Cache(T(), eviction_policy='none', cull_limit=0)
with mock.patch('time.time', return_value=1000.0):
    for i in range(5):
        c.set(i, i, expire=1)
print('F4  policy none: cull() returned', c.cull(), 'left', len(c))

# F5 (C04/C19): tie expire_time == now
c = Cache(T(), cull_limit=0)
with mock.patch('time.time', return_value=1000.0):
    c.set('k', 5, expire=0)
    print('F5  at the tie: get', c.get('k'), '| in', 'k' in c, '| incr ->', c.incr('k'))
    c.push('v', expire=0)
    print('F5  at the tie: pull ->', c.pull())

# F7 (C06/C08)
for what in ('overwrite', 'delete', 'pop', 'new'):
    c = Cache(T())
    if what != 'new':
        c['k'] = big
    try:
        with c.transact():
            if what == 'overwrite':
                c['k'] = big2
            elif what == 'delete':
                del c['k']
            elif what == 'pop':
                c.pop('k')
            else:
                c['n'] = big
            raise RuntimeError
    except RuntimeError:
        pass
    ok = (c.get('k') == big) if what != 'new' else ('n' not in c)
    print('F7  abort after %-9s contents restored: %s  check(): %s' % (what, ok, msgs(c)))

# F9 (C10)
c = Cache(T())
c.push('x5', prefix='a-5')
print("F9  pull(prefix='a') with only queue 'a-5' filled ->", c.pull(prefix='a'))

# F11 (C13)
f = FanoutCache(T(), shards=8)
f[1] = 'one'
c = Cache(T())
c[1] = 'one'
print('F11 1.0 in FanoutCache:', 1.0 in f, '| 1.0 in Cache:', 1.0 in c)

# F12 (C16)
@c.memoize()
def fn(*args, **kw):
    return args, kw
print('F12 same key for f(1, None, "a") and f(1, a=None):',
      fn.__cache_key__(1, None, 'a') == fn.__cache_key__(1, a=None))

# F13 / F14 (C17)
c = Cache(T(), disk_min_file_size=10)
c['a'] = b'x' * 100
os.remove(glob.glob(c.directory + '/*/*/*.val')[0])
print('F13 check(fix=True):', msgs(c, fix=True), '| second check():', msgs(c))
c = Cache(T(), disk_min_file_size=10)
c['p'] = {'k': list(range(100))}
os.truncate(glob.glob(c.directory + '/*/*/*.val')[0], 20)
c.check(fix=True)
try:
    c['p']
    print('F14 truncated pickle readable after fix')
except Exception as e:
    print('F14 truncated pickle after check(fix=True): key present =', 'p' in c, '| read raises', type(e).__name__)

# F15 (C13/C18)
d = T()
f = FanoutCache(d, shards=4, size_limit=4000000)
f.close()
print('F15 size_limit per shard: created', 1000000.0, '| reopened', FanoutCache(d, shards=4).size_limit,
      '| unpickled', pickle.loads(pickle.dumps(f)).size_limit)

# Outside the stated domain (not raised): JSONDisk + stream
c = Cache(T(), disk=JSONDisk)
c.set('s', io.BytesIO(b'abc'), read=True)
try:
    c.get('s')
except Exception as e:
    print('--  JSONDisk stream then plain get raises', type(e).__name__, '(outside C01 domain)')
