#!/bin/sh
# Runs every registered check (quick by default): ./run_all.sh [quick|thorough]
tier=${1:-quick}
cd "$(dirname "$0")"
rc=0
for id in C01 C03 C04 C05 C06 C07 C08 C09 C10 C11 C12 C13 C14 C15 C16 C17 C18 C19 C20; do
  ./vcheck check $id --tier $tier | grep -v "^KNOWN-FINDING" | tail -3
  s=$?
  [ $s -ne 0 ] && rc=1
done
exit $rc
