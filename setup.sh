#!/bin/sh
# Offline setup: nothing to build; verify the interpreter, the repo import and scratch space.
set -e
cd "$(dirname "$0")"
/venv/bin/python -B -c "
import os, sys, sqlite3, tempfile
sys.path.insert(0, '/repo')
import diskcache
assert os.path.realpath(os.path.dirname(diskcache.__file__)) == '/repo/diskcache', diskcache.__file__
base = '/dev/shm' if os.path.isdir('/dev/shm') and os.access('/dev/shm', os.W_OK) else None
d = tempfile.mkdtemp(dir=base); os.rmdir(d)
print('setup ok: python', sys.version.split()[0], 'sqlite', sqlite3.sqlite_version, 'scratch', base or tempfile.gettempdir())
"
/venv/bin/python -B -m compileall -q simdc >/dev/null 2>&1 || true
find simdc -name __pycache__ -type d -exec rm -rf {} + 2>/dev/null || true
