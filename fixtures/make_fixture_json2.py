"""Adds fixtures/format_5_6_3/json2 and jsonfan: JSONDisk caches with composite keys, written by the PINNED release
(run with the pinned tree on sys.path), and records them in manifest.json under caches.json2 / caches.jsonfan:

    PYTHONHASHSEED=0 /venv/bin/python -B fixtures/make_fixture_json2.py <dir containing pinned diskcache/>

Keys are recorded as JSON text (`kjson`), because the member order of a mapping is part of the released key encoding and
manifest.json is written with sorted keys.  Provenance only; the checks read the committed output."""
import json
import os
import shutil
import sys
import unittest.mock as mock

sys.path.insert(0, sys.argv[1])
import diskcache  # noqa

OUT = os.path.join(os.path.dirname(os.path.abspath(__file__)), 'format_5_6_3')
T0 = 1600000000.0
KEYS = ['{"b": 1, "a": 2}', '{"a": 2, "b": 1}', '[1, "x", null]', '{"z": {"y": 1, "x": [2, {"q": 0, "p": 1}]}}', 'null', 'true',
        '2.5', '-1', '"\\u00e9"', '"plain"', '[]', '{}', '{"k": "v"}', '[[1, 2], {"n": null, "m": false}]']
man = json.load(open(os.path.join(OUT, 'manifest.json')))
with mock.patch('time.time', return_value=T0):
    for name in ('json2', 'jsonfan'):
        shutil.rmtree(os.path.join(OUT, name), ignore_errors=True)
    j = diskcache.Cache(os.path.join(OUT, 'json2'), disk=diskcache.JSONDisk, disk_compress_level=1, disk_min_file_size=64)
    items = []
    for i, kj in enumerate(KEYS):
        v = ['v', i, {'of': kj}] if i % 3 else 'w' * (40 + 10 * i)
        j[json.loads(kj)] = v
        items.append({'kjson': kj, 'vjson': json.dumps(v)})
    man['caches']['json2'] = {'items': items, 'count': len(j), 'compress_level': 1}
    j.close()
    f = diskcache.FanoutCache(os.path.join(OUT, 'jsonfan'), shards=3, disk=diskcache.JSONDisk, disk_compress_level=1)
    fitems = []
    for i, kj in enumerate(KEYS):
        k = json.loads(kj)
        f.set(k, i, retry=True)
        fitems.append({'kjson': kj, 'vjson': json.dumps(i), 'shard': f._hash(k) % 3})
    man['caches']['jsonfan'] = {'items': fitems, 'shards': 3, 'compress_level': 1}
    f.close()
for name in ('json2', 'jsonfan'):
    for dirpath, dirs, files in os.walk(os.path.join(OUT, name)):
        for fn in files:
            if fn.endswith(('-wal', '-shm')):
                os.remove(os.path.join(dirpath, fn))
json.dump(man, open(os.path.join(OUT, 'manifest.json'), 'w'), indent=1, sort_keys=True)
print('json2 / jsonfan written by', diskcache.__version__)
