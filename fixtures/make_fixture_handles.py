"""Writes fixtures/format_5_6_3/handles.json: pickled HANDLES (Cache, FanoutCache, Deque, Index objects) as the PINNED release
pickles them - what job payloads, values in other caches and multiprocessing arguments written by a released version contain.
Protocol 0 (text), so that the directory can be substituted: the handles point at '@ROOT@/<name>'.

    PYTHONHASHSEED=0 /venv/bin/python -B fixtures/make_fixture_handles.py <dir containing pinned diskcache/>

Provenance only; the checks read the committed output."""
import json
import os
import pickle
import shutil
import sys
import tempfile

sys.path.insert(0, sys.argv[1])
import diskcache  # noqa

OUT = os.path.join(os.path.dirname(os.path.abspath(__file__)), 'format_5_6_3', 'handles.json')
man = json.load(open(os.path.join(os.path.dirname(OUT), 'manifest.json')))
root = tempfile.mkdtemp(prefix='hfix', dir='/dev/shm')
handles = {}


def record(name, obj, directory, **extra):
    blob = pickle.dumps(obj, protocol=0)
    text = blob.decode('latin-1')
    assert text.count(root) >= 1, name
    handles[name] = dict(extra, dir=directory, pickle_p0=text.replace(root, '@ROOT@'))


c = diskcache.Cache(os.path.join(root, 'cache'), timeout=7)
record('cache', c, 'cache', kind='Cache', timeout=7)
f = diskcache.FanoutCache(os.path.join(root, 'fanout'), shards=man['caches']['fanout']['shards'], timeout=0.5)
record('fanout', f, 'fanout', kind='FanoutCache', shards=man['caches']['fanout']['shards'], timeout=0.5)
d = diskcache.Deque(directory=os.path.join(root, 'deque'))
record('deque', d, 'deque', kind='Deque', maxlen=None)
d3 = diskcache.Deque(directory=os.path.join(root, 'deque'), maxlen=3)
record('deque_maxlen3', d3, 'deque', kind='Deque', maxlen=3)
ix = diskcache.Index(os.path.join(root, 'index'))
record('index', ix, 'index', kind='Index')
jc = diskcache.Cache(os.path.join(root, 'json'), disk=diskcache.JSONDisk)
record('json', jc, 'json', kind='Cache', disk='JSONDisk')
for o in (c, f, jc):
    o.close()
d.cache.close(); d3.cache.close(); ix.cache.close()
shutil.rmtree(root)
json.dump({'written_by': diskcache.__version__, 'handles': handles}, open(OUT, 'w'), indent=1, sort_keys=True)
print(OUT, sorted(handles))
