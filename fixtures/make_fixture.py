"""Writes fixtures/format_5_6_3/: a directory in the released on-disk format,
produced by the PINNED release (run with the pinned tree on sys.path):

    PYTHONHASHSEED=0 /venv/bin/python -B fixtures/make_fixture.py <dir containing pinned diskcache/>

Provenance only; the checks read the committed output and manifest.json."""
import json
import os
import shutil
import sys
import unittest.mock as mock

sys.path.insert(0, sys.argv[1])
sys.path.insert(0, os.path.dirname(os.path.dirname(os.path.abspath(__file__))))
import diskcache  # noqa
from simdc import vals  # noqa

OUT = os.path.join(os.path.dirname(os.path.abspath(__file__)), 'format_5_6_3')
shutil.rmtree(OUT, ignore_errors=True)
os.makedirs(OUT)
T0 = 1600000000.0

KEYS = ['text', 'é', {'b': '6279746573'}, 7, -3, {'f': '2.5'}, {'f': '-0.0'}, {'i': str(2 ** 63 - 1)}, {'i': str(2 ** 63)},
        None, True, {'t': [1, 'x']}, {'t': []}, '', {'b': ''}]
VALUES = [0, -12, {'i': str(2 ** 70)}, {'f': '1.5'}, {'f': 'inf'}, 'short', 'line\r\nbreak', {'b': '000102'}, None, True,
          {'t': [1, None, 'x']}, {'l': [1, 2, {'d': [['k', 'v']]}]},
          {'big': ['bytes', 300, 'B']}, {'big': ['str', 300, 'S']}, {'big': ['crstr', 300, 'C']}, {'big': ['pickle', 400, 'P']}]
manifest = {'written_by': diskcache.__version__, 't0': T0, 'caches': {}}

with mock.patch('time.time', return_value=T0):
    settings = dict(cull_limit=7, size_limit=12345678, eviction_policy='least-recently-used', statistics=1, tag_index=1,
                    disk_min_file_size=64, disk_pickle_protocol=2)
    c = diskcache.Cache(os.path.join(OUT, 'cache'), **settings)
    items = []
    for i, k in enumerate(KEYS):
        v = VALUES[i % len(VALUES)]
        tag = [None, 'tag-a', b'tag-b', 5][i % 4]
        expire = [None, 10 ** 9][i % 2]
        c.set(vals.dec(k), vals.dec(v), expire=expire, tag=tag)
        items.append({'k': k, 'v': v, 'tag': vals.enc(tag), 'expire_time': None if expire is None else T0 + expire})
    for j, v in enumerate(VALUES):
        c.set('val-%d' % j, vals.dec(v))
        items.append({'k': 'val-%d' % j, 'v': v, 'tag': None, 'expire_time': None})
    qkeys = [c.push('q1', prefix='jobs'), c.push('q2', prefix='jobs'), c.push('q0', prefix='jobs', side='front')]
    manifest['caches']['cache'] = {'settings': settings, 'items': items, 'queue': {'prefix': 'jobs', 'order': ['q0', 'q1', 'q2']},
                                   'count': len(c)}
    c.close()

    f = diskcache.FanoutCache(os.path.join(OUT, 'fanout'), shards=3, size_limit=3000000, cull_limit=5)
    fitems = []
    for i, k in enumerate(KEYS + ['k%d' % n for n in range(12)] + list(range(20, 32))):
        v = VALUES[i % len(VALUES)]
        f.set(vals.dec(k), vals.dec(v), retry=True)
        fitems.append({'k': k, 'v': v, 'shard': f._hash(vals.dec(k)) % 3})
    manifest['caches']['fanout'] = {'shards': 3, 'size_limit_per_shard': 1000000.0, 'cull_limit': 5, 'items': fitems}
    dq = f.deque('dq')
    dq.extend(['a', b'b', 3, {'big': 'x' * 200}])
    ix = f.index('ix')
    ix.update([('one', 1), ('two', b'2' * 100), (3, None)])
    manifest['caches']['fanout']['deque'] = ['a', {'b': '62'}, 3, {'d': [['big', 'x' * 200]]}]
    manifest['caches']['fanout']['index'] = [['one', 1], ['two', {'b': (b'2' * 100).hex()}], [3, None]]
    f.close()

    j = diskcache.Cache(os.path.join(OUT, 'json'), disk=diskcache.JSONDisk, disk_compress_level=6, disk_min_file_size=64)
    jitems = []
    for k, v in [('a', 1), ('b', [1, 2, {'x': None}]), (3, 'three'), ('big', 'y' * 500), ('f', 1.5)]:
        j[k] = v
        jitems.append({'k': k, 'v': vals.enc(v)})
    manifest['caches']['json'] = {'items': jitems}
    j.close()

    d = diskcache.Deque(['x', 2, b'three', None], directory=os.path.join(OUT, 'deque'))
    manifest['caches']['deque'] = ['x', 2, {'b': b'three'.hex()}, None]
    d.cache.close()
    x = diskcache.Index(os.path.join(OUT, 'index'), [('z', 1), ('a', 2), (5, 'five')])
    manifest['caches']['index'] = [['z', 1], ['a', 2], [5, 'five']]
    x.cache.close()

for dirpath, dirs, files in os.walk(OUT):
    for name in files:
        if name.endswith(('-wal', '-shm')):
            os.remove(os.path.join(dirpath, name))
json.dump(manifest, open(os.path.join(OUT, 'manifest.json'), 'w'), indent=1, sort_keys=True)
print('fixture written to', OUT)
