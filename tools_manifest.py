#!/venv/bin/python -B
"""Regenerates MANIFEST.json from the check modules present (run by hand)."""
import importlib
import json
import os
import sys

HERE = os.path.dirname(os.path.abspath(__file__))
sys.path.insert(0, HERE)
os.environ.setdefault('DISKCACHE_VERIF', '1')

NOT_APPLICABLE = [
    {"property_id": "C02", "reason": "pure function of a pair of keys and the Disk configuration: no schedule, clock, fault, crash point or history enters the statement or the mechanism, so deterministic simulation adds nothing over enumerating pairs (DESIGN.md section 9, C02); alias-prone keys are still used as alphabet in the C03/C13/C18 runs"},
]
PENDING_REASON = "not claimed yet: check under construction in this session (DESIGN.md section 9 describes the planned simulation)"

checks = []
claimed = set()
for i in range(1, 21):
    pid = 'C%02d' % i
    path = os.path.join(HERE, 'simdc', 'checks', pid.lower() + '.py')
    if not os.path.exists(path):
        continue
    mod = importlib.import_module('simdc.checks.' + pid.lower())
    if getattr(mod, 'DISABLED', False):
        continue
    claimed.add(pid)
    checks.append({
        'property_id': pid,
        'quick_cmd': './vcheck check %s --tier quick' % pid,
        'thorough_cmd': './vcheck check %s --tier thorough' % pid,
        'evidence_file': '/verif/evidence/%s.json' % pid,
        'replay_cmd_template': './vcheck replay {path}',
        'engine': 'simdc',
        'level_claimed': {'category': mod.LEVEL, 'text': mod.LEVEL_TEXT, 'design_ref': 'DESIGN.md section 9, %s' % pid},
        'level_note': mod.LEVEL_NOTE,
        'technique': mod.TECHNIQUE,
    })
na = list(NOT_APPLICABLE)
for i in range(1, 21):
    pid = 'C%02d' % i
    if pid not in claimed and pid not in {n['property_id'] for n in na}:
        na.append({'property_id': pid, 'reason': PENDING_REASON})
manifest = {
    'version': 1,
    'setup_cmd': './setup.sh',
    'hooks': {
        'guard': 'DISKCACHE_VERIF',
        'enable': 'no source hooks in /repo: with DISKCACHE_VERIF=1 (set by ./vcheck) the harness substitutes the module globals of diskcache (time, os, os.path, sqlite3, open, threading, tempfile, random, rmtree) after import; diskcache is imported from /repo\'s working tree',
        'baseline_off_cmd': 'cd /repo && /venv/bin/python -m pytest -ra -q -p no:cacheprovider --timeout=900 --continue-on-collection-errors',
        'source_commits': [],
        'add_only': True,
    },
    'engines': [{'name': 'simdc', 'path': '/verif/simdc', 'serves_properties': sorted(claimed),
                 'kind_free_text': 'deterministic simulator written for this repository: real threads under a baton with a seeded scheduler, virtual clock and timers, emulated SQLite busy timeout, simulated processes with kill, fault injection at SQL/file/clock seams; real diskcache + real SQLite + tmpfs files'}],
    'checks': checks,
    'notes': 'All checks: ./vcheck check <id> --tier quick|thorough (env VERIF_SEED, VERIF_TIER, VERIF_BUDGET_S, VERIF_WORKERS). Exit 0 held / 1 VIOLATION / 2 HARNESS-ERROR. Known findings: /verif/known_findings.txt. Fix commits in /repo are listed there as fixed: lines.',
    'not_applicable': na,
}
json.dump(manifest, open(os.path.join(HERE, 'MANIFEST.json'), 'w'), indent=1)
print('claimed:', sorted(claimed))
