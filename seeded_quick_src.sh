#!/bin/bash
# usage: seeded_quick_src.sh <name> "<props>" [source dir holding patch.diff]
# Fast look while background runs use /repo: the patch is applied to a scratch COPY of /repo/diskcache (DISKCACHE_SRC), /repo is
# not touched.  The recorded evaluation (meta.json) is always made by seeded_eval.sh, which applies the patch to /repo itself.
name=$1; props=$2; src=${3:-/verif/seeded/$name}
root=$(mktemp -d /dev/shm/sq-XXXXXX)
git -C /repo archive HEAD diskcache | tar -x -C $root      # the committed tree, whatever the working tree holds right now
patch -p1 -s -d $root -i $src/patch.diff || { echo "patch does not apply"; rm -rf $root; exit 3; }
cd /verif
for p in $props; do
  DISKCACHE_SRC=$root VERIF_BUDGET_S=${SEEDED_BUDGET_S:-45} VERIF_SHRINK_S=10 ./vcheck check $p --tier quick 2>&1 | grep -E "^  rule:|^  detail:|VIOLATION|HARNESS|quick:" | cut -c1-260
done
rm -rf $root /verif/replays; git -C /verif checkout -- evidence 2>/dev/null
