#!/bin/bash
# usage: seeded_quick.sh <name> "<props>"  - apply a stored seeded change to /repo, run the checks, undo it (no demo/suite confirmation)
name=$1; props=$2
cd /verif
git -C /repo apply /verif/seeded/$name/patch.diff || exit 3
for p in $props; do
  VERIF_BUDGET_S=${SEEDED_BUDGET_S:-45} VERIF_SHRINK_S=10 ./vcheck check $p --tier quick 2>&1 | grep -E "^  rule:|VIOLATION|HARNESS|quick:" | cut -c1-220
done
git -C /repo checkout -- .
rm -rf /verif/replays; git -C /verif checkout -- evidence 2>/dev/null
