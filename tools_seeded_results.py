#!/venv/bin/python -B
"""Regenerates seeded/RESULTS.md from seeded/*/meta.json (run by hand after seeded_eval.sh)."""
import glob
import json
import os

HERE = os.path.dirname(os.path.abspath(__file__))
rows = []
for d in sorted(glob.glob(os.path.join(HERE, 'seeded', '*', ''))):
    mp = os.path.join(d, 'meta.json')
    if not os.path.exists(mp):
        continue
    m = json.load(open(mp))
    extra = os.path.join(d, 'about.json')
    if os.path.exists(extra):
        m.update(json.load(open(extra)))
    caught = [c['check'] + ': ' + c['rule'] for c in m['checks'] if c['exit'] == 1]
    rows.append((m['name'], m.get('breaks_property', '?'), m.get('needs_to_manifest', '?'), '; '.join(caught) or 'MISSED',
                 m['demo_exit_without_change'], m['demo_exit_with_change'], m['suite_with_change'], m.get('note', '')))
with open(os.path.join(HERE, 'seeded', 'RESULTS.md'), 'w') as f:
    f.write("# Seeded changes written by independent sub-agents\n\nEach directory holds patch.diff, demo.py (fails with the change, "
            "passes without), the agent's NOTES.md, the logs of the runs, about.json (property, what it needs to manifest, notes) "
            "and meta.json (written by seeded_eval.sh: demonstration exit codes and the unedited suite with the change, both "
            "confirmed in a fresh scratch worktree, and the outcome of the checks run against /repo with the patch applied).\n\n"
            "| change | property | needs | caught by (rule of the first violation) | demo without/with | suite with change |\n|---|---|---|---|---|---|\n")
    for r in rows:
        f.write('| %s | %s | %s | %s | %s / %s | %s |\n' % r[:7])
    f.write('\nNotes:\n')
    for r in rows:
        if r[7]:
            f.write('* %s: %s\n' % (r[0], r[7]))
print(len(rows), 'seeded changes;', sum(1 for r in rows if r[3] == 'MISSED'), 'missed')
